/-
  C10 — block requests tile each assigned piece exactly once.
-/
import RdestModel.Lemmas.Trace
import RdestModel.Lemmas.Req
set_option linter.unusedSimpArgs false
set_option linter.unusedVariables false
namespace Rdest.Props.C10
open Rdest Rdest.Wire Rdest.Gen Rdest.Swarm

/-- "each at most 16 KiB": the block size of the source. -/
theorem block_size : PIECE_BLOCK_SIZE = 16384 ∧ 0 < PIECE_BLOCK_SIZE := by decide

/-! ### T1: `PieceRx::left` tiles the piece, for every piece length and every positive block size -/

def tile (B len k : Nat) : Nat × Nat := (k * B, min B (len - k * B))

theorem numBlocks_spec (B len : Nat) (hB : 0 < B) (k : Nat) : k < (len + B - 1) / B ↔ k * B < len := by
  rw [Nat.lt_div_iff_mul_lt hB]
  constructor <;> intro h <;> omega

theorem leftBlocks_length (B len : Nat) : (leftBlocks B len).length = (len + B - 1) / B := by
  simp [leftBlocks]

/-- Entry `k` of the block list is `(k·B, min B (len − k·B))`: full blocks, the last one being the remainder. -/
theorem leftBlocks_get (B len : Nat) (hB : 0 < B) (k : Nat) (hk : k < (len + B - 1) / B) :
    (leftBlocks B len)[k]? = some (tile B len k) := by
  have hlt : k * B < len := (numBlocks_spec B len hB k).mp hk
  simp only [leftBlocks, List.getElem?_map, List.getElem?_range hk, Option.map_some, tile]
  congr 2
  by_cases h : k * B + B > len
  · -- the remainder block: len % B = len − k·B
    rw [if_pos h]
    have hr : len = (len - k * B) + k * B := by omega
    have hrl : len - k * B < B := by omega
    rw [Nat.min_eq_right (by omega)]
    conv => lhs; rw [hr]
    rw [Nat.add_mul_mod_self_right, Nat.mod_eq_of_lt hrl]
  · rw [if_neg h, Nat.min_eq_left (by omega)]

/-- Every block is non-empty and at most `B` long; consecutive blocks are contiguous; the first starts at 0. -/
theorem tile_props (B len : Nat) (hB : 0 < B) (k : Nat) (hk : k * B < len) :
    0 < (tile B len k).2 ∧ (tile B len k).2 ≤ B ∧ (tile B len k).1 + (tile B len k).2 = min ((k + 1) * B) len := by
  simp only [tile]
  have : (k + 1) * B = k * B + B := Nat.succ_mul k B
  omega

/-- The lengths of the first `m` blocks add up to `min (m·B) len`; all of them to exactly `len`. -/
theorem tiles_sum (B len : Nat) (hB : 0 < B) (m : Nat) (hm : m ≤ (len + B - 1) / B) :
    (((List.range m).map (tile B len)).map (·.2)).sum = min (m * B) len := by
  induction m with
  | zero => simp
  | succ m ih =>
    have hk : m < (len + B - 1) / B := by omega
    have hlt : m * B < len := (numBlocks_spec B len hB m).mp hk
    rw [List.range_succ, List.map_append, List.map_append, List.sum_append, ih (by omega)]
    obtain ⟨_, _, h3⟩ := tile_props B len hB m hlt
    simp only [List.map_cons, List.map_nil, List.sum_cons, List.sum_nil, Nat.add_zero]
    simp only [tile] at h3 ⊢
    have : (m + 1) * B = m * B + B := Nat.succ_mul m B
    omega

theorem leftBlocks_eq_tiles (B len : Nat) (hB : 0 < B) :
    leftBlocks B len = (List.range ((len + B - 1) / B)).map (tile B len) := by
  apply List.ext_getElem?
  intro k
  by_cases hk : k < (len + B - 1) / B
  · rw [leftBlocks_get B len hB k hk]; simp [List.getElem?_map, List.getElem?_range hk]
  · have h1 : (leftBlocks B len)[k]? = none := by
      apply List.getElem?_eq_none; rw [leftBlocks_length]; omega
    have h2 : ((List.range ((len + B - 1) / B)).map (tile B len))[k]? = none := by
      apply List.getElem?_eq_none; simp; omega
    rw [h1, h2]

/-- **T1.** For every piece length and block size: the requested blocks are `(k·B, min B (len − k·B))` for
    `k < ⌈len/B⌉` — each non-empty and at most `B` long, contiguous from offset 0 — and their lengths add up to
    exactly `len`: the piece is covered exactly once, without gap or overlap, the last block being the remainder. -/
theorem T1_blocks_tile_the_piece (B len : Nat) (hB : 0 < B) :
    (leftBlocks B len).length = (len + B - 1) / B ∧
    (∀ k, k < (leftBlocks B len).length →
        (leftBlocks B len)[k]? = some (k * B, min B (len - k * B)) ∧ 0 < min B (len - k * B) ∧
        k * B + min B (len - k * B) = min ((k + 1) * B) len) ∧
    ((leftBlocks B len).map (·.2)).sum = len := by
  refine ⟨leftBlocks_length B len, ?_, ?_⟩
  · intro k hk
    rw [leftBlocks_length] at hk
    have hlt := (numBlocks_spec B len hB k).mp hk
    obtain ⟨h1, _, h3⟩ := tile_props B len hB k hlt
    exact ⟨leftBlocks_get B len hB k hk, h1, h3⟩
  · rw [leftBlocks_eq_tiles B len hB, tiles_sum B len hB _ (Nat.le_refl _)]
    apply Nat.min_eq_right
    -- ⌈len/B⌉·B ≥ len
    have : len ≤ ((len + B - 1) / B) * B := by
      have h := Nat.div_add_mod (len + B - 1) B
      have hm := Nat.mod_lt (len + B - 1) hB
      rw [Nat.mul_comm] at h
      omega
    exact this

/-- T1 for the source: `PieceRx::left(piece_length)` with the 16 KiB block size. -/
theorem T1_impl (len : Nat) : ((leftImpl len).map (·.2)).sum = len ∧ ∀ b ∈ leftImpl len, 0 < b.2 ∧ b.2 ≤ 16384 := by
  have hB := block_size
  refine ⟨(T1_blocks_tile_the_piece PIECE_BLOCK_SIZE len hB.2).2.2, ?_⟩
  intro b hb
  unfold leftImpl at hb
  rw [leftBlocks_eq_tiles _ _ hB.2] at hb
  obtain ⟨k, hk, rfl⟩ := List.mem_map.mp hb
  have hlt := (numBlocks_spec PIECE_BLOCK_SIZE len hB.2 k).mp (List.mem_range.mp hk)
  obtain ⟨h1, h2, _⟩ := tile_props PIECE_BLOCK_SIZE len hB.2 k hlt
  rw [hB.1] at h2
  exact ⟨h1, h2⟩

/-! ### The first two requests of an assignment are the first two tiles (`new_piece_request`) -/

theorem newPieceRequest_writes (s : HState) (rd : ReqData) :
    ((newPieceRequest s false rd).2 = ((leftImpl rd.length).take 2).map (fun bl => .write (.request rd.index bl.1 bl.2))) ∧
    (∃ rx, (newPieceRequest s false rd).1.pieceRx = some rx ∧ rx.index = rd.index ∧
      rx.requested = (leftImpl rd.length).take 2 ∧ rx.left = (leftImpl rd.length).drop 2) := by
  unfold newPieceRequest sendRequest newRx
  cases h : leftImpl rd.length with
  | nil => simp [sendRequest, h]
  | cons a t =>
    cases t with
    | nil => simp [sendRequest, h]
    | cons b u => simp [sendRequest, h]

/-! ### Non-vacuity (tests) -/

example : leftBlocks 4 10 = [(0, 4), (4, 4), (8, 2)] := by decide
example : leftBlocks 4 8 = [(0, 4), (4, 4)] := by decide
example : leftBlocks 4 0 = [] := by decide

end Rdest.Props.C10

namespace Rdest.Props.C10
open Rdest Rdest.Wire Rdest.Gen Rdest.Swarm

/-! ### The whole trace: every script -/

def curRel (B : Nat) : Option Cur → Option Rx → Prop
  | none, none => True
  | some c, some rx => RelC B c rx
  | _, _ => False

def R10 (st : M10) (s : HState) : Prop :=
  st.alive = s.alive ∧ (s.alive = true → curRel PIECE_BLOCK_SIZE st.cur s.pieceRx)

abbrev BS := PIECE_BLOCK_SIZE

/-- The request data carried by a reply. -/
def repReq01 (rep : Rep) : Option ReqData :=
  match rep with
  | .req rd _ => some rd
  | _ => none

def c0Of (rd : ReqData) : Cur := { idx := rd.index, plen := rd.length, sent := 0, outstanding := [] }

/-- For every input that is not a `Piece` frame the first part of the monitor does nothing. -/
theorem cur1Of_nonpiece (st : M10) (inp : TIn) (hnp : ∀ i b blk rep d, inp ≠ .frame (.piece i b blk) rep d) :
    cur1Of st inp = (st.cur, false) := by
  cases inp with
  | frame m rep d =>
    cases m with
    | piece i b blk => exact absurd rfl (hnp i b blk rep d)
    | _ => cases hc : st.cur <;> simp [cur1Of, hc]
  | _ => cases hc : st.cur <;> simp [cur1Of, hc]

/-- The monitor on a non-`Piece` input that stores nothing. -/
theorem step10c_nonpiece (st : M10) (inp : TIn) (obs : List Obs) (e : Option Bool)
    (hnp : ∀ i b blk rep d, inp ≠ .frame (.piece i b blk) rep d) (hsv : savedObs obs = []) :
    step10c BS st inp obs e = finish10 BS st.cur false false inp obs e := by
  have hc : completesOf BS st.cur false = false := by cases st.cur <;> simp [completesOf]
  simp only [step10c, cur1Of_nonpiece st inp hnp, hc, hsv]
  simp

/-- A step that keeps the download as it is and writes no request. -/
theorem accept_keep (sha1 : Bytes → Bytes) (st : M10) (s s' : HState) (inp : TIn) (o : List HOut) (e : Option Bool)
    (hR : R10 st s) (ha : s.alive = true)
    (hnp : ∀ i b blk rep d, inp ≠ .frame (.piece i b blk) rep d)
    (hsd : NoSD o) (hrq : NoRq o) (hasg : assigned inp (o.filterMap (obsOf sha1)) = none)
    (hs' : s'.alive = e.isNone ∧ (e.isNone = true → s'.pieceRx = s.pieceRx)) :
    ∃ st', step10 BS st (inp, o.filterMap (obsOf sha1), e) = some st' ∧ R10 st' s' := by
  obtain ⟨hRa, hRs⟩ := hR
  have hlive : (!st.alive) = false := by rw [hRa, ha]; rfl
  have hsv : savedObs (o.filterMap (obsOf sha1)) = [] := by rw [savedObs_obs]; exact nosd_saves sha1 o hsd
  have hreq : requestWrites (o.filterMap (obsOf sha1)) = [] := by rw [requestWrites_obs]; exact hrq
  refine ⟨{ cur := st.cur, alive := e.isNone }, ?_, ⟨hs'.1.symm, fun hal => ?_⟩⟩
  · simp only [step10, hlive, Bool.false_eq_true, if_false, step10c_nonpiece st inp _ e hnp hsv, finish10, hasg, hreq]
    cases st.cur with
    | none => simp
    | some c => simp [takeRequests]
  · have he : e.isNone = true := by rw [← hs'.1]; exact hal
    show curRel BS st.cur s'.pieceRx
    rw [hs'.2 he]; exact hRs ha

/-- What a (re)assignment must look like: the first two tiles of the new piece requested, or nothing requested. -/
def AssignRes (o : List HOut) (s' : HState) (e : Option Bool) : Option ReqData → Prop
  | some rd => ∃ c rx', takeRequests BS (c0Of rd) (rqO o) = some c ∧ c.sent = min 2 (totalOf BS (c0Of rd)) ∧
      (e.isNone = true → s'.pieceRx = some rx' ∧ RelC BS c rx')
  | none => NoRq o ∧ (e.isNone = true → s'.pieceRx = none)

/-- A step in which the manager's reply (re)assigns: the first two tiles of the new piece, or nothing. -/
theorem accept_assign (sha1 : Bytes → Bytes) (st : M10) (s s' : HState) (inp : TIn) (o : List HOut) (e : Option Bool)
    (hR : R10 st s) (ha : s.alive = true)
    (hnp : ∀ i b blk rep d, inp ≠ .frame (.piece i b blk) rep d)
    (hsd : NoSD o) (x : Option ReqData) (hasg : assigned inp (o.filterMap (obsOf sha1)) = some x)
    (hs' : s'.alive = e.isNone)
    (hx : AssignRes o s' e x) :
    ∃ st', step10 BS st (inp, o.filterMap (obsOf sha1), e) = some st' ∧ R10 st' s' := by
  obtain ⟨hRa, hRs⟩ := hR
  have hlive : (!st.alive) = false := by rw [hRa, ha]; rfl
  have hsv : savedObs (o.filterMap (obsOf sha1)) = [] := by rw [savedObs_obs]; exact nosd_saves sha1 o hsd
  cases x with
  | some rd =>
    obtain ⟨c, rx', ht, hsent, hrel⟩ := hx
    refine ⟨{ cur := some c, alive := e.isNone }, ?_, ⟨hs'.symm, fun hal => ?_⟩⟩
    · simp only [step10, hlive, Bool.false_eq_true, if_false, step10c_nonpiece st inp _ e hnp hsv, finish10, hasg,
        requestWrites_obs]
      have : takeRequests BS { idx := rd.index, plen := rd.length, sent := 0, outstanding := [] } (rqO o) = some c := ht
      rw [this]
      simp only []
      exact if_pos hsent
    · have he : e.isNone = true := by rw [← hs']; exact hal
      obtain ⟨h1, h2⟩ := hrel he
      show curRel BS (some c) s'.pieceRx
      rw [h1]; exact h2
  | none =>
    obtain ⟨hrq, hnone⟩ := hx
    have hreq : requestWrites (o.filterMap (obsOf sha1)) = [] := by rw [requestWrites_obs]; exact hrq
    refine ⟨{ cur := none, alive := e.isNone }, ?_, ⟨hs'.symm, fun hal => ?_⟩⟩
    · simp only [step10, hlive, Bool.false_eq_true, if_false, step10c_nonpiece st inp _ e hnp hsv, finish10, hasg, hreq]
      simp
    · have he : e.isNone = true := by rw [← hs']; exact hal
      show curRel BS none s'.pieceRx
      rw [hnone he]; trivial

theorem rqO_flush (l : List Nat) : rqO (l.map fun i => HOut.write (.haveP i)) = [] := by
  induction l with
  | nil => rfl
  | cons x xs ih => simp only [List.map_cons, rqO, List.filterMap_cons] at ih ⊢; exact ih

theorem sdO_flush (l : List Nat) : NoSD (l.map fun i => HOut.write (.haveP i)) := by
  induction l with
  | nil => rfl
  | cons x xs ih => simp only [List.map_cons, NoSD, sdO, List.filterMap_cons] at ih ⊢; exact ih

theorem cmO_flush (l : List Nat) : cmO (l.map fun i => HOut.write (.haveP i)) = [] := by
  induction l with
  | nil => rfl
  | cons x xs ih => simp only [List.map_cons, cmO, List.filterMap_cons] at ih ⊢; exact ih

/-- What the reply of `PieceDone`/`PieceCancel` (or `Unchoke`) leads to, in the monitor's terms. -/
theorem assign_of_npr (s : HState) (wi : Bool) (rd : ReqData) (pre : List HOut) (hpre : rqO pre = []) (e : Option Bool) :
    ∃ c rx', takeRequests BS (c0Of rd) (rqO (pre ++ (newPieceRequest s wi rd).2)) = some c ∧
      c.sent = min 2 (totalOf BS (c0Of rd)) ∧
      (e.isNone = true → (newPieceRequest s wi rd).1.pieceRx = some rx' ∧ RelC BS c rx') := by
  obtain ⟨c, rx', ht, hp, hr, hs⟩ := newPieceRequest_rel s wi rd
  exact ⟨c, rx', by rw [rqO_append, hpre, List.nil_append]; exact ht, hs, fun _ => ⟨hp, hr⟩⟩

theorem pieceFinishReply_rq (s : HState) (hs : s.pieceRx = none) (rep : Rep) (s' : HState) (o : List HOut) (b : Bool)
    (h : pieceFinishReply s rep = some (s', o, b)) (pre : List HOut) (hpre : rqO pre = []) (e : Option Bool) :
    AssignRes (pre ++ o) s' e (repReq01 rep) := by
  unfold pieceFinishReply at h
  split at h
  · rename_i rd
    simp only [Option.some.injEq, Prod.mk.injEq] at h
    obtain ⟨h1, h2, _⟩ := h
    rw [← h1, ← h2]
    exact assign_of_npr s false rd pre hpre e
  · cases h; exact ⟨by show rqO (pre ++ _) = []; rw [rqO_append, hpre]; rfl, fun _ => hs⟩
  · cases h; exact ⟨by show rqO (pre ++ _) = []; rw [rqO_append, hpre]; rfl, fun _ => hs⟩
  · cases h; exact ⟨by show rqO (pre ++ _) = []; rw [rqO_append, hpre]; rfl, fun _ => hs⟩
  · cases h


theorem assignRes_go (o : List HOut) (s1 s' : HState) (e : Option Bool) (x : Option ReqData)
    (h : AssignRes o s1 (none : Option Bool) x) (hs : e.isNone = true → s' = s1) : AssignRes o s' e x := by
  cases x with
  | some rd =>
    obtain ⟨c, rx', h1, h2, h3⟩ := h
    exact ⟨c, rx', h1, h2, fun he => by rw [hs he]; exact h3 rfl⟩
  | none =>
    obtain ⟨h1, h2⟩ := h
    exact ⟨h1, fun he => by rw [hs he]; exact h2 rfl⟩

theorem assignRes_npr (s : HState) (wi : Bool) (rd : ReqData) (pre : List HOut) (hpre : rqO pre = []) :
    AssignRes (pre ++ (newPieceRequest s wi rd).2) (newPieceRequest s wi rd).1 (none : Option Bool) (some rd) := by
  obtain ⟨c, rx', h1, h2, h3⟩ := assign_of_npr s wi rd pre hpre (none : Option Bool)
  exact ⟨c, rx', h1, h2, h3⟩

theorem cur1Of_piece (st : M10) (i b : Nat) (blk : Bytes) (rep : Rep) (d : Option (Bytes × Bytes)) :
    cur1Of st (.frame (.piece i b blk) rep d) =
      (match st.cur with
       | some c =>
         if i = c.idx ∧ c.outstanding.contains (b, blk.length) then
           (some { c with outstanding := c.outstanding.filter (· ≠ (b, blk.length)) }, true)
         else (some c, false)
       | none => (none, false)) := by
  cases hc : st.cur <;> simp [cur1Of, hc]

theorem cmO_sendRequest (s : HState) : cmO (sendRequest s).2 = [] := by
  unfold sendRequest; split
  · split <;> rfl
  · rfl

/-- `handle_piece` against the monitor. -/
theorem piece_sound (sha1 : Bytes → Bytes) (st : M10) (s0 : HState) (hrel : curRel BS st.cur s0.pieceRx)
    (idx b : Nat) (blk : Bytes) (rep : Rep) (d : Option (Bytes × Bytes)) (s1 : HState) (o : List HOut) (c : Cont)
    (h : onPiece sha1 s0 idx b blk rep = some (s1, o, c)) (e : Option Bool)
    (hec : (c = .go ∧ e = none) ∨ (c ≠ .go ∧ e.isNone = false)) :
    ∃ st', step10c BS st (.frame (.piece idx b blk) rep d) (o.filterMap (obsOf sha1)) e = some st' ∧
      st'.alive = e.isNone ∧ (c = .go → curRel BS st'.cur s1.pieceRx) := by
  simp only [onPiece] at h
  cases hprx : s0.pieceRx with
  | none =>
    -- nothing is being downloaded: the block is ignored
    rw [hprx] at h hrel
    simp only [Option.some.injEq, Prod.mk.injEq] at h
    obtain ⟨rfl, rfl, rfl⟩ := h
    have hcur : st.cur = none := by
      cases hc : st.cur with
      | none => rfl
      | some cc => rw [hc] at hrel; exact absurd hrel (by simp [curRel])
    refine ⟨{ cur := none, alive := e.isNone }, ?_, rfl, fun _ => by rw [hprx]; trivial⟩
    simp only [step10c, cur1Of_piece, hcur, completesOf, List.filterMap_nil, savedObs, finish10, assigned, cmds, requestWrites, writes]
    simp
  | some rx =>
    rw [hprx] at h hrel
    simp only at h
    obtain ⟨cc, hcur⟩ : ∃ cc, st.cur = some cc := by
      cases hc : st.cur with
      | none => rw [hc] at hrel; exact absurd hrel (by simp [curRel])
      | some cc => exact ⟨cc, rfl⟩
    rw [hcur] at hrel
    obtain ⟨r1, r2, r3, r4⟩ : RelC BS cc rx := hrel
    by_cases hacc : rx.index ≠ idx ∨ ¬ rx.requested.contains (b, blk.length) = true
    · -- not an answer to an outstanding request: nothing happens
      rw [if_pos hacc] at h
      simp only [Option.some.injEq, Prod.mk.injEq] at h
      obtain ⟨rfl, rfl, rfl⟩ := h
      have hcond : ¬ (idx = cc.idx ∧ cc.outstanding.contains (b, blk.length) = true) := by
        rw [← r1, ← r2]
        intro hh
        rcases hacc with h1 | h1
        · exact h1 hh.1.symm
        · exact h1 hh.2
      refine ⟨{ cur := some cc, alive := e.isNone }, ?_, rfl, fun _ => by rw [hprx]; exact ⟨r1, r2, r3, r4⟩⟩
      simp only [step10c, cur1Of_piece, hcur, hcond, if_false, completesOf, Bool.false_and, List.filterMap_nil, savedObs,
        finish10, assigned, cmds, requestWrites, writes]
      simp [takeRequests]
    · rw [if_neg hacc] at h
      have hidx : rx.index = idx := by
        by_cases hh : rx.index = idx
        · exact hh
        · exact absurd (Or.inl hh) hacc
      have hcont : rx.requested.contains (b, blk.length) = true := by
        cases hh : rx.requested.contains (b, blk.length) with
        | true => rfl
        | false => exact absurd (Or.inr (by rw [hh]; exact Bool.false_ne_true)) hacc
      have hcond : idx = cc.idx ∧ cc.outstanding.contains (b, blk.length) = true := by
        rw [← r1, ← r2]; exact ⟨hidx.symm, hcont⟩
      -- the monitor's record after the accepted block
      let c1 : Cur := { cc with outstanding := cc.outstanding.filter (· ≠ (b, blk.length)) }
      let rx1 : Rx := { rx with requested := rx.requested.filter (· ≠ (b, blk.length)), buff := writeSlice rx.buff b blk }
      have hrel1 : RelC BS c1 rx1 := ⟨r1, by simp [rx1, c1, r2], r3, r4⟩
      have hc1 : cur1Of st (.frame (.piece idx b blk) rep d) = (some c1, true) := by
        rw [cur1Of_piece, hcur]; simp only []; rw [if_pos hcond]
      have hleft : rx1.left.isEmpty = decide (cc.sent = totalOf BS cc) := by
        show rx.left.isEmpty = _
        rw [r3]
        by_cases hs : cc.sent = totalOf BS cc
        · simp [hs, totalOf]
        · have : cc.sent < (leftBlocks BS cc.plen).length := by unfold totalOf at hs; omega
          simp only [hs, decide_false]
          cases hd : (leftBlocks BS cc.plen).drop cc.sent with
          | nil => have := List.drop_eq_nil_iff.mp hd; omega
          | cons _ _ => rfl
      have hcomp : completesOf BS (some c1) true = (rx1.left.isEmpty && rx1.requested.isEmpty) := by
        have e1 : c1.outstanding.isEmpty = rx1.requested.isEmpty := by
          show (cc.outstanding.filter _).isEmpty = (rx.requested.filter _).isEmpty
          rw [r2]
        have e2 : decide (c1.sent = totalOf BS c1) = rx1.left.isEmpty := hleft.symm
        simp only [completesOf, Bool.true_and]
        rw [e1, e2]
        exact Bool.and_comm _ _
      by_cases hdone : rx1.left.isEmpty = true ∧ rx1.requested.isEmpty = true
      · -- the last outstanding block of a fully requested piece
        rw [if_pos hdone] at h
        have hcomp' : completesOf BS (some c1) true = true := by rw [hcomp, hdone.1, hdone.2]; rfl
        by_cases hbad : sha1 rx1.buff ≠ rx1.hash
        · -- hash mismatch: the task ends, nothing is stored
          rw [if_pos hbad] at h
          simp only [Option.some.injEq, Prod.mk.injEq] at h
          obtain ⟨rfl, rfl, rfl⟩ := h
          have hend : e.isNone = false := by
            rcases hec with ⟨hc', _⟩ | ⟨_, h2⟩
            · cases hc'
            · exact h2
          refine ⟨{ cur := none, alive := e.isNone }, ?_, rfl, fun hc' => by cases hc'⟩
          simp only [step10c, hc1, hcomp', List.filterMap_nil, savedObs, finish10, assigned, cmds, requestWrites, writes, hend]
          simp
        · rw [if_neg hbad] at h
          -- stored and reported; the reply decides what is next
          cases hpf : pieceFinishReply { s0 with pieceRx := none } rep with
          | none => rw [hpf] at h; cases h
          | some t =>
            obtain ⟨s2, o2, bb⟩ := t
            rw [hpf] at h
            have hres : s1 = s2 ∧ o = [HOut.save rx1.hash rx1.buff, HOut.cmd Cmd.pieceDone] ++ o2 := by
              cases bb <;> (simp only [Option.some.injEq, Prod.mk.injEq] at h; exact ⟨h.1.symm, h.2.1.symm⟩)
            obtain ⟨rfl, rfl⟩ := hres
            obtain ⟨_, hq2⟩ := pieceFinishReply_sd { s0 with pieceRx := none } rfl rep s1 o2 bb hpf
            have hcm2 := cmO_pfr _ _ _ _ _ hpf
            have hsv : savedObs (([HOut.save rx1.hash rx1.buff, HOut.cmd Cmd.pieceDone] ++ o2).filterMap (obsOf sha1)) =
                [(rx1.hash, sha1 rx1.buff, rx1.buff.length)] := by
              rw [savedObs_obs, savesO_append, nosd_saves sha1 o2 hq2]; rfl
            have hasg : assigned (.frame (.piece idx b blk) rep d) (([HOut.save rx1.hash rx1.buff, HOut.cmd Cmd.pieceDone] ++ o2).filterMap (obsOf sha1)) =
                some (repReq01 rep) := by
              simp only [assigned, cmds_obs, cmO_append, hcm2]
              simp [cmO]
              try (cases rep <;> rfl)
            have hpre : rqO [HOut.save rx1.hash rx1.buff, HOut.cmd Cmd.pieceDone] = [] := rfl
            have hx := pieceFinishReply_rq { s0 with pieceRx := none } rfl rep s1 o2 bb hpf _ hpre e
            cases hrr : repReq01 rep with
            | some rd =>
              rw [hrr] at hx hasg
              obtain ⟨cN, rxN, ht, hsent, hrelN⟩ := hx
              refine ⟨{ cur := some cN, alive := e.isNone }, ?_, rfl, fun hc' => ?_⟩
              · simp only [step10c, hc1, hcomp', hsv, finish10, hasg, requestWrites_obs]
                have : takeRequests BS { idx := rd.index, plen := rd.length, sent := 0, outstanding := [] }
                    (rqO ([HOut.save rx1.hash rx1.buff, HOut.cmd Cmd.pieceDone] ++ o2)) = some cN := ht
                rw [this]
                simp only [List.isEmpty_cons, Bool.not_false, Bool.not_true, Bool.and_false, Bool.false_eq_true, if_false,
                  Bool.and_true, Bool.true_and, Bool.false_and]
                exact if_pos hsent
              · have he : e.isNone = true := by
                  rcases hec with ⟨_, rfl⟩ | ⟨h1, _⟩
                  · rfl
                  · exact absurd hc' h1
                obtain ⟨h1, h2⟩ := hrelN he
                show curRel BS (some cN) s1.pieceRx
                rw [h1]; exact h2
            | none =>
              rw [hrr] at hx hasg
              obtain ⟨hnrq, hnone⟩ := hx
              have hreq : requestWrites (([HOut.save rx1.hash rx1.buff, HOut.cmd Cmd.pieceDone] ++ o2).filterMap (obsOf sha1)) = [] := by
                rw [requestWrites_obs]; exact hnrq
              refine ⟨{ cur := none, alive := e.isNone }, ?_, rfl, fun hc' => ?_⟩
              · simp only [step10c, hc1, hcomp', hsv, finish10, hasg, hreq]
                simp
              · have he : e.isNone = true := by
                  rcases hec with ⟨_, rfl⟩ | ⟨h1, _⟩
                  · rfl
                  · exact absurd hc' h1
                show curRel BS none s1.pieceRx
                rw [hnone he]; trivial
      · -- more to come: at most one further request
        rw [if_neg hdone] at h
        simp only [Option.some.injEq, Prod.mk.injEq] at h
        obtain ⟨hs1, ho, hcgo⟩ := h
        have ho' : o = (sendRequest { s0 with pieceRx := some rx1 }).2 := ho.symm
        have hs1' : s1 = (sendRequest { s0 with pieceRx := some rx1 }).1 := hs1.symm
        rw [ho', hs1']
        have hcomp' : completesOf BS (some c1) true = false := by
          rw [hcomp]
          cases h1 : rx1.left.isEmpty <;> cases h2 : rx1.requested.isEmpty <;> simp_all
        obtain ⟨c', rx', ht, hp, hr, _, _, hs⟩ :=
          sendRequest_rel BS { s0 with pieceRx := some rx1 } rx1 c1 rfl hrel1
        have hsd := (sendRequest_sd { s0 with pieceRx := some rx1 }).2
        have hsv : savedObs ((sendRequest { s0 with pieceRx := some rx1 }).2.filterMap (obsOf sha1)) = [] := by
          rw [savedObs_obs]; exact nosd_saves sha1 _ hsd
        have hasg : assigned (.frame (.piece idx b blk) rep d) ((sendRequest { s0 with pieceRx := some rx1 }).2.filterMap (obsOf sha1)) = none := by
          simp only [assigned, cmds_obs, cmO_sendRequest]; rfl
        refine ⟨{ cur := some c', alive := e.isNone }, ?_, rfl, fun _ => by show curRel BS (some c') _; rw [hp]; exact hr⟩
        simp only [step10c, hc1, hcomp', hsv, finish10, hasg, requestWrites_obs]
        have : takeRequests BS c1 (rqO (sendRequest { s0 with pieceRx := some rx1 }).2) = some c' := ht
        rw [this]
        simp only [List.isEmpty_nil, Bool.not_true, Bool.false_and, Bool.false_eq_true, if_false, Bool.and_false, Bool.true_and]
        by_cases hlt : c1.sent < (leftBlocks BS c1.plen).length
        · have hd : decide (c1.sent < totalOf BS c1) = true := decide_eq_true hlt
          rw [if_pos hlt] at hs
          simp only [hd, if_true]
          exact if_pos hs
        · have hd : decide (c1.sent < totalOf BS c1) = false := decide_eq_false hlt
          rw [if_neg hlt] at hs
          simp only [hd, Bool.false_eq_true, if_false]
          exact if_pos hs


theorem norq_replicate_ka (n : Nat) : NoRq (List.replicate n (HOut.write Msg.keepAlive)) ∧ NoSD (List.replicate n (HOut.write Msg.keepAlive)) := by
  induction n with
  | zero => exact ⟨rfl, rfl⟩
  | succ n ih =>
    obtain ⟨h1, h2⟩ := ih
    simp only [List.replicate_succ]
    exact ⟨by simp only [NoRq, rqO, List.filterMap_cons] at h1 ⊢; exact h1, by simp only [NoSD, sdO, List.filterMap_cons] at h2 ⊢; exact h2⟩

theorem cancels_quiet (i : Nat) (l : List (Nat × Nat)) :
    rqO (l.map fun bl => HOut.write (.cancel i bl.1 bl.2)) = [] ∧ NoSD (l.map fun bl => HOut.write (.cancel i bl.1 bl.2)) ∧
    cmO (l.map fun bl => HOut.write (.cancel i bl.1 bl.2)) = [] := by
  induction l with
  | nil => exact ⟨rfl, rfl, rfl⟩
  | cons x xs ih =>
    obtain ⟨h1, h2, h3⟩ := ih
    simp only [List.map_cons]
    exact ⟨by simp only [rqO, List.filterMap_cons] at h1 ⊢; exact h1,
      by simp only [NoSD, sdO, List.filterMap_cons] at h2 ⊢; exact h2,
      by simp only [cmO, List.filterMap_cons] at h3 ⊢; exact h3⟩

theorem step10_sound (sha1 : Bytes → Bytes) (st : M10) (s : HState) (inp : TIn) (s' : HState) (o : List HOut)
    (e : Option Bool) (hR : R10 st s) (hI' : s.alive = true → s.pieceRx ≠ none → s.hsDone = true)
    (h : tstep sha1 s inp = some (s', o, e)) :
    ∃ st', step10 BS st (inp, o.filterMap (obsOf sha1), e) = some st' ∧ R10 st' s' := by
  cases ha : s.alive with
  | false =>
    rw [tstep_dead sha1 s ha inp] at h; cases h
    refine ⟨st, ?_, hR⟩
    simp [step10, hR.1, ha, deadOk]
  | true =>
    have hg : (!s.alive) = false := by simp [ha]
    have hlive : (!st.alive) = false := by rw [hR.1, ha]; rfl
    have hrel := hR.2 ha
    have hI := hI' ha
    cases inp with
    | ticks k =>
      simp only [tstep, ticks_facts s ha, Option.some.injEq, Prod.mk.injEq] at h
      obtain ⟨rfl, rfl, rfl⟩ := h
      obtain ⟨hq1, hq2⟩ := norq_replicate_ka (kaRun KEEP_ALIVE_LIMIT s.keepAlive k).1
      refine accept_keep sha1 st s _ _ _ _ hR ha (by simp) hq2 hq1 rfl ⟨?_, fun _ => rfl⟩
      generalize (kaRun KEEP_ALIVE_LIMIT s.keepAlive k).2.2 = b
      cases b <;> rfl
    | eof =>
      simp only [tstep, hstep, hg, Bool.false_eq_true, if_false, terminate] at h
      cases h
      exact accept_keep sha1 st s _ _ _ _ hR ha (by simp) rfl rfl rfl ⟨rfl, fun c => by cases c⟩
    | recvErr =>
      simp only [tstep, hstep, hg, Bool.false_eq_true, if_false, terminate] at h
      cases h
      exact accept_keep sha1 st s _ _ _ _ hR ha (by simp) rfl rfl rfl ⟨rfl, fun c => by cases c⟩
    | bcState en =>
      simp only [tstep, hstep, hg, Bool.false_eq_true, if_false] at h
      split at h <;> cases h <;>
        exact accept_keep sha1 st s _ _ _ _ hR ha (by simp) rfl rfl rfl ⟨ha, fun _ => rfl⟩
    | start rep =>
      simp only [tstep, hstart, hg, Bool.false_eq_true, if_false] at h
      split at h
      · cases rep with
        | bitfield bs =>
          simp only [initHandshake, Option.some.injEq, Prod.mk.injEq] at h
          obtain ⟨rfl, rfl, rfl⟩ := h
          exact accept_keep sha1 st s _ _ _ _ hR ha (by simp) rfl rfl rfl ⟨ha, fun _ => rfl⟩
        | _ => simp [initHandshake] at h
      · cases h
        exact accept_keep sha1 st s _ _ _ _ hR ha (by simp) rfl rfl rfl ⟨ha, fun _ => rfl⟩
    | bcHave i rep =>
      simp only [tstep, hstep, hg, Bool.false_eq_true, if_false] at h
      have outer : ∀ (s1 : HState) (o1 : List HOut), s1.alive = true →
          (if s1.choked = true then some ({ s1 with msgBuff := s1.msgBuff ++ [i] }, o1, none)
            else some (s1, o1 ++ [HOut.write (Msg.haveP i)], none)) = some (s', o, e) →
          e = none ∧ s'.pieceRx = s1.pieceRx ∧ s'.alive = true ∧ cmO o = cmO o1 ∧ rqO o = rqO o1 ∧ sdO o = sdO o1 := by
        intro s1 o1 hal hm
        split at hm
        · cases hm; exact ⟨rfl, rfl, hal, rfl, rfl, rfl⟩
        · cases hm
          exact ⟨rfl, rfl, hal, by rw [cmO_append]; simp [cmO], by rw [rqO_append]; simp [rqO], by rw [sdO_append]; simp [sdO]⟩
      cases hrx : s.pieceRx with
      | none =>
        rw [hrx] at h
        obtain ⟨rfl, hp, hal, hcm, hrq, hsd⟩ := outer s [] ha h
        have hasg : assigned (.bcHave i rep) (o.filterMap (obsOf sha1)) = none := by
          simp only [assigned, cmds_obs, hcm]; rfl
        exact accept_keep sha1 st s _ _ _ _ hR ha (by simp) hsd hrq hasg ⟨by simp [hal], fun _ => hp⟩
      | some rx =>
        rw [hrx] at h
        simp only at h
        by_cases hi : rx.index = i
        · simp only [hi, if_true] at h
          cases hpf : pieceFinishReply { s with pieceRx := none } rep with
          | none => rw [hpf] at h; cases h
          | some t =>
            obtain ⟨s2, o2, b2⟩ := t
            rw [hpf] at h
            simp only at h
            obtain ⟨_, hq2⟩ := pieceFinishReply_sd { s with pieceRx := none } rfl rep s2 o2 b2 hpf
            obtain ⟨_, hal2, _⟩ := pieceFinishReply_core _ _ _ _ _ hpf
            have hcm2 := cmO_pfr _ _ _ _ _ hpf
            obtain ⟨hcr, hcs, hcc⟩ := cancels_quiet i rx.requested
            obtain ⟨rfl, hp, hal, hcm, hrq, hsd⟩ := outer s2 _ (by rw [hal2]; exact ha) h
            have hpre : rqO (List.map (fun bl => HOut.write (Msg.cancel i bl.1 bl.2)) rx.requested ++ [HOut.cmd Cmd.pieceCancel]) = [] := by
              rw [rqO_append, hcr]; rfl
            have hasg : assigned (.bcHave i rep) (o.filterMap (obsOf sha1)) = some (repReq01 rep) := by
              simp only [assigned, cmds_obs, hcm, cmO_append, hcc, hcm2]
              simp [cmO]
              try (cases rep <;> rfl)
            have hsd' : NoSD o := by
              show sdO o = []
              rw [hsd, sdO_append, sdO_append, hcs, hq2]; rfl
            have hx := pieceFinishReply_rq { s with pieceRx := none } rfl rep s2 o2 b2 hpf _ hpre (none : Option Bool)
            refine accept_assign sha1 st s _ _ _ _ hR ha (by simp) hsd' (repReq01 rep) hasg (by simp [hal]) ?_
            cases hrr : repReq01 rep with
            | some rd =>
              rw [hrr] at hx
              obtain ⟨cN, rxN, ht, hsent, hrelN⟩ := hx
              refine ⟨cN, rxN, ?_, hsent, fun _ => ?_⟩
              · rw [hrq]; exact ht
              · obtain ⟨h1, h2⟩ := hrelN rfl
                exact ⟨by rw [hp]; exact h1, h2⟩
            | none =>
              rw [hrr] at hx
              obtain ⟨hnrq, hnone⟩ := hx
              exact ⟨by show rqO o = []; rw [hrq]; exact hnrq, fun _ => by rw [hp]; exact hnone rfl⟩
        · simp only [hi, if_false] at h
          obtain ⟨rfl, hp, hal, hcm, hrq, hsd⟩ := outer s [] ha h
          have hasg : assigned (.bcHave i rep) (o.filterMap (obsOf sha1)) = none := by
            simp only [assigned, cmds_obs, hcm]; rfl
          exact accept_keep sha1 st s _ _ _ _ hR ha (by simp) hsd hrq hasg ⟨by simp [hal], fun _ => hp⟩
    | frame m rep d =>
      simp only [tstep, hstep, hg, Bool.false_eq_true, if_false] at h
      cases hf : handleFrame sha1 (diskOf d) s m rep with
      | none => rw [hf] at h; cases h
      | some r =>
        obtain ⟨s1, o1, c⟩ := r
        rw [hf] at h
        obtain ⟨_, hal1, _⟩ := handleFrame_core sha1 _ s m rep s1 o1 c hf
        have hres : o = o1 ∧ ((c = .go ∧ s' = s1 ∧ e = none) ∨ (c ≠ .go ∧ s'.alive = false ∧ e.isNone = false)) := by
          cases c with
          | go => cases h; exact ⟨rfl, Or.inl ⟨rfl, rfl, rfl⟩⟩
          | endNormal => simp only [terminate] at h; cases h; exact ⟨rfl, Or.inr ⟨by simp, rfl, rfl⟩⟩
          | endError => simp only [terminate] at h; cases h; exact ⟨rfl, Or.inr ⟨by simp, rfl, rfl⟩⟩
        obtain ⟨rfl, hcase⟩ := hres
        have halive' : s'.alive = e.isNone := by
          rcases hcase with ⟨_, rfl, rfl⟩ | ⟨_, h1, h2⟩
          · rw [hal1]; exact ha
          · rw [h1, h2]
        have hgo : ∀ (P : HState → Prop), (c = .go → P s1) → e.isNone = true → P s' := by
          intro P hp he
          rcases hcase with ⟨hc', rfl, _⟩ | ⟨_, _, h2⟩
          · exact hp hc'
          · rw [h2] at he; cases he
        unfold handleFrame at hf
        simp only at hf
        by_cases hgate : (!s.hsDone && !isHandshake m) = true
        · -- refused before the handshake
          rw [if_pos hgate] at hf
          cases hf
          have hend : e.isNone = false := by
            rcases hcase with ⟨hc', _, _⟩ | ⟨_, _, h2⟩
            · cases hc'
            · exact h2
          cases m with
          | piece idx b blk =>
            -- a `Piece` frame before the handshake: nothing is being downloaded yet; nothing happens, the task ends
            have hnd : s.hsDone = false := by
              cases hh : s.hsDone with
              | false => rfl
              | true => simp [hh, isHandshake] at hgate
            have hprx : s.pieceRx = none := by
              cases hp : s.pieceRx with
              | none => rfl
              | some rx => have := hI (by rw [hp]; simp); rw [hnd] at this; cases this
            have hcur : st.cur = none := by
              cases hc : st.cur with
              | none => rfl
              | some cc => rw [hc, hprx] at hrel; exact absurd hrel (by simp [curRel])
            refine ⟨{ cur := none, alive := e.isNone }, ?_, ⟨by simp [halive'], fun hh => by rw [halive', hend] at hh; cases hh⟩⟩
            simp only [step10, hlive, Bool.false_eq_true, if_false, step10c, cur1Of_piece, hcur, completesOf, List.filterMap_nil,
              savedObs, finish10, assigned, cmds, requestWrites, writes, hend]
            simp
          | _ =>
            refine accept_keep sha1 st s _ _ _ _ hR ha (by simp) rfl rfl ?_ ⟨halive', fun he => by rw [hend] at he; cases he⟩
            rfl
        · -- dispatched
          rw [if_neg hgate] at hf
          cases m with
          | handshake ih pid =>
            simp only [dispatch] at hf
            have hq : NoSD o ∧ NoRq o ∧ (c = .go → s1.pieceRx = s.pieceRx) := by
              rcases onHandshake_cases _ ih pid rep s1 o c hf with ⟨_, rfl, rfl, rfl⟩ | ⟨_, _, rfl, rfl, bs, rfl⟩ | ⟨_, _, rfl, rfl, rfl⟩
              · exact ⟨rfl, rfl, fun c => by cases c⟩
              · exact ⟨rfl, rfl, fun _ => rfl⟩
              · exact ⟨rfl, rfl, fun _ => rfl⟩
            exact accept_keep sha1 st s _ _ _ _ hR ha (by simp) hq.1 hq.2.1 rfl
              ⟨halive', fun he => hgo (fun x => x.pieceRx = s.pieceRx) hq.2.2 he⟩
          | unchoke =>
            simp only [dispatch] at hf
            obtain ⟨_, _, _, rest, rfl, _⟩ := onUnchoke_adv _ rep s1 _ c hf
            have hpre : rqO (List.map (fun i => HOut.write (Msg.haveP i)) s.msgBuff ++ [HOut.cmd Cmd.recvUnchoke]) = [] := by
              rw [rqO_append, rqO_flush]; rfl
            -- what the reply assigns
            have hs1 : e.isNone = true → s' = s1 := by
              intro he
              rcases hcase with ⟨_, h2, _⟩ | ⟨_, _, h2⟩
              · exact h2
              · rw [h2] at he; cases he
            have hdet : NoSD rest ∧ cmO rest = [] ∧
                AssignRes (List.map (fun i => HOut.write (Msg.haveP i)) s.msgBuff ++ [HOut.cmd Cmd.recvUnchoke] ++ rest) s1 (none : Option Bool) (repReq01 rep) := by
              unfold onUnchoke at hf
              simp only at hf
              split at hf
              · rename_i rd wi
                simp only [Option.some.injEq, Prod.mk.injEq] at hf
                obtain ⟨h1, h2, _⟩ := hf
                have hr : rest = (newPieceRequest { s with keepAlive := kaAfter Msg.unchoke s.keepAlive, choked := false, msgBuff := [] } wi rd).2 :=
                  (List.append_cancel_left h2).symm
                have hnp := newPieceRequest_sd { s with keepAlive := kaAfter Msg.unchoke s.keepAlive, choked := false, msgBuff := [] } wi rd
                rw [hr, ← h1]
                exact ⟨hnp.2, cmO_npr _ _ _, assignRes_npr _ wi rd _ hpre⟩
              · simp only [Option.some.injEq, Prod.mk.injEq] at hf
                obtain ⟨h1, h2, _⟩ := hf
                have hr : rest = [HOut.write Msg.notInterested] := (List.append_cancel_left h2).symm
                rw [hr, ← h1]
                exact ⟨rfl, rfl, by show rqO _ = []; rw [rqO_append, hpre]; rfl, fun _ => rfl⟩
              · simp only [Option.some.injEq, Prod.mk.injEq] at hf
                obtain ⟨h1, h2, _⟩ := hf
                have hr : rest = [] := by
                  have : List.map (fun i => HOut.write (Msg.haveP i)) s.msgBuff ++ [HOut.cmd Cmd.recvUnchoke] ++ [] =
                      List.map (fun i => HOut.write (Msg.haveP i)) s.msgBuff ++ [HOut.cmd Cmd.recvUnchoke] ++ rest := by
                    simpa using h2
                  exact (List.append_cancel_left this).symm
                rw [hr, ← h1]
                exact ⟨rfl, rfl, by show rqO _ = []; rw [rqO_append, hpre]; rfl, fun _ => rfl⟩
              · cases hf
            have hasg : assigned (.frame .unchoke rep d) ((List.map (fun i => HOut.write (Msg.haveP i)) s.msgBuff ++ [HOut.cmd Cmd.recvUnchoke] ++ rest).filterMap (obsOf sha1)) =
                some (repReq01 rep) := by
              simp only [assigned, cmds_obs, cmO_append, cmO_flush, hdet.2.1]
              simp [cmO]
              try (cases rep <;> rfl)
            exact accept_assign sha1 st s _ _ _ _ hR ha (by simp) (nosd_append (nosd_append (sdO_flush _) (rfl : NoSD [HOut.cmd Cmd.recvUnchoke])) hdet.1)
              (repReq01 rep) hasg halive' (assignRes_go _ s1 s' e _ hdet.2.2 hs1)
          | haveP i =>
            simp only [dispatch, onHave] at hf
            split at hf
            · cases hf
              refine accept_keep sha1 st s _ _ _ _ hR ha (by simp) rfl rfl rfl ⟨halive', fun he => ?_⟩
              rcases hcase with ⟨hc', _, _⟩ | ⟨_, _, h2⟩
              · cases hc'
              · rw [h2] at he; cases he
            · split at hf
              · rename_i rd
                cases hf
                have hnp := newPieceRequest_sd { s with keepAlive := kaAfter (Msg.haveP i) s.keepAlive } true rd
                have hpre : rqO [HOut.cmd (Cmd.recvHave i)] = [] := rfl
                have hs1 : e.isNone = true → s' = (newPieceRequest { s with keepAlive := kaAfter (Msg.haveP i) s.keepAlive } true rd).1 := by
                  intro he
                  rcases hcase with ⟨_, h2, _⟩ | ⟨_, _, h2⟩
                  · exact h2
                  · rw [h2] at he; cases he
                have hasg : assigned (.frame (.haveP i) (.req rd true) d)
                    (([HOut.cmd (Cmd.recvHave i)] ++ (newPieceRequest { s with keepAlive := kaAfter (Msg.haveP i) s.keepAlive } true rd).2).filterMap (obsOf sha1)) =
                    some (some rd) := by
                  simp only [assigned, cmds_obs, cmO_append, cmO_npr]
                  simp [cmO]
                exact accept_assign sha1 st s _ _ _ _ hR ha (by simp) (nosd_append (rfl : NoSD [HOut.cmd (Cmd.recvHave i)]) hnp.2) (some rd) hasg halive'
                  (assignRes_go _ _ s' e _ (assignRes_npr _ true rd _ hpre) hs1)
              · cases hf
                exact accept_keep sha1 st s _ _ _ _ hR ha (by simp) rfl rfl rfl ⟨halive', fun he => hgo (fun x => x.pieceRx = s.pieceRx) (fun _ => rfl) he⟩
              · cases hf
                exact accept_keep sha1 st s _ _ _ _ hR ha (by simp) rfl rfl rfl ⟨halive', fun he => hgo (fun x => x.pieceRx = s.pieceRx) (fun _ => rfl) he⟩
              · cases hf
          | piece idx b blk =>
            simp only [dispatch] at hf
            have hec : (c = .go ∧ e = none) ∨ (c ≠ .go ∧ e.isNone = false) := by
              rcases hcase with ⟨h1, _, h3⟩ | ⟨h1, _, h3⟩
              · exact Or.inl ⟨h1, h3⟩
              · exact Or.inr ⟨h1, h3⟩
            obtain ⟨st', hst, hal', hrel'⟩ := piece_sound sha1 st { s with keepAlive := kaAfter (Msg.piece idx b blk) s.keepAlive } hrel idx b blk rep d s1 o c hf e hec
            refine ⟨st', by simp only [step10, hlive, Bool.false_eq_true, if_false]; exact hst, ⟨by rw [hal', halive'], fun hh => ?_⟩⟩
            have he : e.isNone = true := by rw [← halive']; exact hh
            exact hgo (fun x => curRel BS st'.cur x.pieceRx) hrel' he
          | keepAlive | choke | interested | notInterested | bitfield _ | request _ _ _ | cancel _ _ _ =>
            obtain ⟨hk, hq⟩ := dispatch_rq sha1 _ _ _ rep rfl (by simp) (by simp) (by simp) s1 _ c hf
            obtain ⟨_, hsd⟩ := dispatch_sd sha1 _ _ _ rep rfl (by simp) (by simp) (by simp) s1 _ c hf
            exact accept_keep sha1 st s _ _ _ _ hR ha (by simp) hsd hq rfl ⟨halive', fun he => hgo (fun x => x.pieceRx = s.pieceRx) (fun _ => hk) he⟩


/-- A piece can only be in progress on a connection whose handshake has validated (so the gate of `handle_frame`
    never refuses a block of a piece in progress). -/
theorem hs_inv (sha1 : Bytes → Bytes) (s : HState) (inp : TIn) (s' : HState) (o : List HOut) (e : Option Bool)
    (ha : s.alive = true) (hI : s.pieceRx ≠ none → s.hsDone = true) (h : tstep sha1 s inp = some (s', o, e)) :
    s'.pieceRx ≠ none → s'.hsDone = true := by
  have hg : (!s.alive) = false := by simp [ha]
  cases inp with
  | ticks k =>
    simp only [tstep, ticks_facts s ha, Option.some.injEq, Prod.mk.injEq] at h
    obtain ⟨rfl, _, _⟩ := h; exact hI
  | eof => simp only [tstep, hstep, hg, Bool.false_eq_true, if_false, terminate] at h; cases h; exact hI
  | recvErr => simp only [tstep, hstep, hg, Bool.false_eq_true, if_false, terminate] at h; cases h; exact hI
  | bcState en =>
    simp only [tstep, hstep, hg, Bool.false_eq_true, if_false] at h
    split at h <;> cases h <;> exact hI
  | start rep =>
    simp only [tstep, hstart, hg, Bool.false_eq_true, if_false] at h
    split at h
    · split at h
      · cases h; exact hI
      · cases h
    · cases h; exact hI
  | bcHave i rep =>
    simp only [tstep] at h
    obtain ⟨_, _, _, _, _, _, hhs, _⟩ := hstep_bcHave_core sha1 _ s ha i rep s' o e h
    intro hp
    cases hrx : s.pieceRx with
    | some rx => rw [hhs]; exact hI (by rw [hrx]; simp)
    | none =>
      -- nothing in progress: a `SendHave` cannot start a download
      exfalso
      simp only [hstep, hg, Bool.false_eq_true, if_false, hrx] at h
      split at h <;> (cases h; first | exact hp rfl | exact hp hrx)
  | frame m rep d =>
    simp only [tstep, hstep, hg, Bool.false_eq_true, if_false] at h
    cases hf : handleFrame sha1 (diskOf d) s m rep with
    | none => rw [hf] at h; cases h
    | some r =>
      obtain ⟨s1, o1, c⟩ := r
      rw [hf] at h
      have hs' : s'.pieceRx = s1.pieceRx ∧ s'.hsDone = s1.hsDone := by
        cases c <;> (simp only [terminate] at h; cases h; exact ⟨rfl, rfl⟩)
      rw [hs'.1, hs'.2]
      unfold handleFrame at hf
      simp only at hf
      by_cases hgate : (!s.hsDone && !isHandshake m) = true
      · rw [if_pos hgate] at hf; cases hf; exact hI
      · rw [if_neg hgate] at hf
        cases hm : isHandshake m with
        | true =>
          cases m with
          | handshake ih pid =>
            simp only [dispatch] at hf
            rcases onHandshake_cases _ ih pid rep s1 o1 c hf with ⟨_, rfl, _, _⟩ | ⟨_, _, rfl, _, _⟩ | ⟨_, _, rfl, _, _⟩
            · exact hI
            · intro _; rfl
            · intro _; rfl
          | _ => simp [isHandshake] at hm
        | false =>
          have hd : s.hsDone = true := by
            cases hh : s.hsDone with
            | true => rfl
            | false => simp [hh, hm] at hgate
          obtain ⟨_, _, _, _, _, hhs, _⟩ := dispatch_core sha1 _ _ m rep hm s1 o1 c hf
          intro _; rw [hhs]; exact hd

/-- **C10, whole trace (every script).** From a fresh connection: all `Request` frames written between an assignment
    and the completion or cancellation of the piece name that piece and are, in order, the tiles
    `(k·16384, min 16384 (len − k·16384))` of its length, each exactly once; two are pipelined at the assignment; every
    accepted block is followed by exactly one further request while tiles remain; the piece is stored and reported
    exactly at the accepted block that leaves nothing outstanding and nothing unrequested; blocks that do not answer an
    outstanding request cause nothing. -/
theorem C10_trace (sha1 : Bytes → Bytes) (s : HState) (halive : s.alive = true) (hrx : s.pieceRx = none)
    (script : List TIn) : P10 PIECE_BLOCK_SIZE (runTrace sha1 s script) = true :=
  checkTrace_run sha1 (step10 BS)
    (fun st s => R10 st s ∧ (s.alive = true → s.pieceRx ≠ none → s.hsDone = true))
    (fun st s inp s' o e hR h => by
      obtain ⟨hR1, hR2⟩ := hR
      cases ha : s.alive with
      | false =>
        have hd := tstep_dead sha1 s ha inp
        rw [hd] at h; cases h
        obtain ⟨st', h1, h2⟩ := step10_sound sha1 st s inp s [] none hR1 hR2 hd
        exact ⟨st', h1, h2, fun hal => by rw [ha] at hal; cases hal⟩
      | true =>
        obtain ⟨st', h1, h2⟩ := step10_sound sha1 st s inp s' o e hR1 hR2 h
        exact ⟨st', h1, h2, fun _ => hs_inv sha1 s inp s' o e ha (hR2 ha) h⟩)
    script { cur := none, alive := true } s
    ⟨⟨halive.symm, fun _ => by rw [hrx]; trivial⟩, fun _ hp => absurd hrx hp⟩


end Rdest.Props.C10
