/-
  C10 — block requests tile each assigned piece exactly once.
-/
import RdestModel.Lemmas.Trace
set_option linter.unusedSimpArgs false
set_option linter.unusedVariables false
namespace Rdest.Props.C10
open Rdest Rdest.Wire Rdest.Gen Rdest.Swarm

/-- "each at most 16 KiB": the block size of the source. -/
theorem block_size : PIECE_BLOCK_SIZE = 16384 ∧ 0 < PIECE_BLOCK_SIZE := by decide

/-! ### T1: `PieceRx::left` tiles the piece, for every piece length and every positive block size -/

def tile (B len k : Nat) : Nat × Nat := (k * B, min B (len - k * B))

theorem numBlocks_spec (B len : Nat) (hB : 0 < B) (k : Nat) : k < (len + B - 1) / B ↔ k * B < len := by
  rw [Nat.lt_div_iff_mul_lt hB]
  constructor <;> intro h <;> omega

theorem leftBlocks_length (B len : Nat) : (leftBlocks B len).length = (len + B - 1) / B := by
  simp [leftBlocks]

/-- Entry `k` of the block list is `(k·B, min B (len − k·B))`: full blocks, the last one being the remainder. -/
theorem leftBlocks_get (B len : Nat) (hB : 0 < B) (k : Nat) (hk : k < (len + B - 1) / B) :
    (leftBlocks B len)[k]? = some (tile B len k) := by
  have hlt : k * B < len := (numBlocks_spec B len hB k).mp hk
  simp only [leftBlocks, List.getElem?_map, List.getElem?_range hk, Option.map_some, tile]
  congr 2
  by_cases h : k * B + B > len
  · -- the remainder block: len % B = len − k·B
    rw [if_pos h]
    have hr : len = (len - k * B) + k * B := by omega
    have hrl : len - k * B < B := by omega
    rw [Nat.min_eq_right (by omega)]
    conv => lhs; rw [hr]
    rw [Nat.add_mul_mod_self_right, Nat.mod_eq_of_lt hrl]
  · rw [if_neg h, Nat.min_eq_left (by omega)]

/-- Every block is non-empty and at most `B` long; consecutive blocks are contiguous; the first starts at 0. -/
theorem tile_props (B len : Nat) (hB : 0 < B) (k : Nat) (hk : k * B < len) :
    0 < (tile B len k).2 ∧ (tile B len k).2 ≤ B ∧ (tile B len k).1 + (tile B len k).2 = min ((k + 1) * B) len := by
  simp only [tile]
  have : (k + 1) * B = k * B + B := Nat.succ_mul k B
  omega

/-- The lengths of the first `m` blocks add up to `min (m·B) len`; all of them to exactly `len`. -/
theorem tiles_sum (B len : Nat) (hB : 0 < B) (m : Nat) (hm : m ≤ (len + B - 1) / B) :
    (((List.range m).map (tile B len)).map (·.2)).sum = min (m * B) len := by
  induction m with
  | zero => simp
  | succ m ih =>
    have hk : m < (len + B - 1) / B := by omega
    have hlt : m * B < len := (numBlocks_spec B len hB m).mp hk
    rw [List.range_succ, List.map_append, List.map_append, List.sum_append, ih (by omega)]
    obtain ⟨_, _, h3⟩ := tile_props B len hB m hlt
    simp only [List.map_cons, List.map_nil, List.sum_cons, List.sum_nil, Nat.add_zero]
    simp only [tile] at h3 ⊢
    have : (m + 1) * B = m * B + B := Nat.succ_mul m B
    omega

theorem leftBlocks_eq_tiles (B len : Nat) (hB : 0 < B) :
    leftBlocks B len = (List.range ((len + B - 1) / B)).map (tile B len) := by
  apply List.ext_getElem?
  intro k
  by_cases hk : k < (len + B - 1) / B
  · rw [leftBlocks_get B len hB k hk]; simp [List.getElem?_map, List.getElem?_range hk]
  · have h1 : (leftBlocks B len)[k]? = none := by
      apply List.getElem?_eq_none; rw [leftBlocks_length]; omega
    have h2 : ((List.range ((len + B - 1) / B)).map (tile B len))[k]? = none := by
      apply List.getElem?_eq_none; simp; omega
    rw [h1, h2]

/-- **T1.** For every piece length and block size: the requested blocks are `(k·B, min B (len − k·B))` for
    `k < ⌈len/B⌉` — each non-empty and at most `B` long, contiguous from offset 0 — and their lengths add up to
    exactly `len`: the piece is covered exactly once, without gap or overlap, the last block being the remainder. -/
theorem T1_blocks_tile_the_piece (B len : Nat) (hB : 0 < B) :
    (leftBlocks B len).length = (len + B - 1) / B ∧
    (∀ k, k < (leftBlocks B len).length →
        (leftBlocks B len)[k]? = some (k * B, min B (len - k * B)) ∧ 0 < min B (len - k * B) ∧
        k * B + min B (len - k * B) = min ((k + 1) * B) len) ∧
    ((leftBlocks B len).map (·.2)).sum = len := by
  refine ⟨leftBlocks_length B len, ?_, ?_⟩
  · intro k hk
    rw [leftBlocks_length] at hk
    have hlt := (numBlocks_spec B len hB k).mp hk
    obtain ⟨h1, _, h3⟩ := tile_props B len hB k hlt
    exact ⟨leftBlocks_get B len hB k hk, h1, h3⟩
  · rw [leftBlocks_eq_tiles B len hB, tiles_sum B len hB _ (Nat.le_refl _)]
    apply Nat.min_eq_right
    -- ⌈len/B⌉·B ≥ len
    have : len ≤ ((len + B - 1) / B) * B := by
      have h := Nat.div_add_mod (len + B - 1) B
      have hm := Nat.mod_lt (len + B - 1) hB
      rw [Nat.mul_comm] at h
      omega
    exact this

/-- T1 for the source: `PieceRx::left(piece_length)` with the 16 KiB block size. -/
theorem T1_impl (len : Nat) : ((leftImpl len).map (·.2)).sum = len ∧ ∀ b ∈ leftImpl len, 0 < b.2 ∧ b.2 ≤ 16384 := by
  have hB := block_size
  refine ⟨(T1_blocks_tile_the_piece PIECE_BLOCK_SIZE len hB.2).2.2, ?_⟩
  intro b hb
  unfold leftImpl at hb
  rw [leftBlocks_eq_tiles _ _ hB.2] at hb
  obtain ⟨k, hk, rfl⟩ := List.mem_map.mp hb
  have hlt := (numBlocks_spec PIECE_BLOCK_SIZE len hB.2 k).mp (List.mem_range.mp hk)
  obtain ⟨h1, h2, _⟩ := tile_props PIECE_BLOCK_SIZE len hB.2 k hlt
  rw [hB.1] at h2
  exact ⟨h1, h2⟩

/-! ### The first two requests of an assignment are the first two tiles (`new_piece_request`) -/

theorem newPieceRequest_writes (s : HState) (rd : ReqData) :
    ((newPieceRequest s false rd).2 = ((leftImpl rd.length).take 2).map (fun bl => .write (.request rd.index bl.1 bl.2))) ∧
    (∃ rx, (newPieceRequest s false rd).1.pieceRx = some rx ∧ rx.index = rd.index ∧
      rx.requested = (leftImpl rd.length).take 2 ∧ rx.left = (leftImpl rd.length).drop 2) := by
  unfold newPieceRequest sendRequest newRx
  cases h : leftImpl rd.length with
  | nil => simp [sendRequest, h]
  | cons a t =>
    cases t with
    | nil => simp [sendRequest, h]
    | cons b u => simp [sendRequest, h]

/-! ### Non-vacuity (tests) -/

example : leftBlocks 4 10 = [(0, 4), (4, 4), (8, 2)] := by decide
example : leftBlocks 4 8 = [(0, 4), (4, 4)] := by decide
example : leftBlocks 4 0 = [] := by decide

end Rdest.Props.C10

namespace Rdest.Props.C10
open Rdest Rdest.Wire Rdest.Gen Rdest.Swarm

/-- The full trace statement (T2–T4 of C10). It is evaluated by the driver on the model's trace and on the
    implementation's trace of every generated script; its kernel proof for all scripts is not completed yet —
    `T1_blocks_tile_the_piece` and `newPieceRequest_writes` are the proved parts (see MANIFEST level_note). -/
def C10_trace_full : Prop :=
  ∀ (sha1 : Bytes → Bytes) (s : HState) (script : List TIn), s.alive = true → s.pieceRx = none →
    P10 PIECE_BLOCK_SIZE (runTrace sha1 s script) = true

end Rdest.Props.C10
