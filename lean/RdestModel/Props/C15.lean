/-
  C15 — bencode encode/decode are mutually inverse and canonical.
-/
import RdestModel.Lemmas.Bencode
set_option linter.unusedSimpArgs false
set_option linter.unusedVariables false
namespace Rdest.Props.C15
open Rdest Rdest.Bencode

/-! ### Well-formed values: what the Rust types can hold -/

/-- Every key is smaller (byte-wise) than all keys after it: a `HashMap` printed in ascending key order. -/
def ascending : List (Bytes × BValue) → Bool
  | [] => true
  | (k, _) :: rest => rest.all (fun e => bytesLt k e.1) && ascending rest

mutual
/-- `i64` integers, strings and keys shorter than 2^64 bytes, dictionaries as ascending duplicate-free lists. -/
def wf : BValue → Bool
  | .int i => decide (-(2 : Int) ^ 63 ≤ i ∧ i < (2 : Int) ^ 63)
  | .str s => decide (s.length < 2 ^ 64)
  | .list l => wfList l
  | .dict d => ascending d && wfEntries d
def wfList : List BValue → Bool
  | [] => true
  | v :: vs => wf v && wfList vs
def wfEntries : List (Bytes × BValue) → Bool
  | [] => true
  | (k, v) :: rest => decide (k.length < 2 ^ 64) && wf v && wfEntries rest
end

/-! ### Dictionaries: inserting an ascending list reproduces it -/

theorem bytesLt_asymm (a b : Bytes) (h : bytesLt a b = true) : bytesLt b a = false := by
  induction a generalizing b with
  | nil => cases b <;> simp_all [bytesLt]
  | cons x xs ih =>
    cases b with
    | nil => simp [bytesLt] at h
    | cons y ys =>
      simp only [bytesLt] at h ⊢
      by_cases h1 : x < y
      · have h2 : ¬ y < x := by
          intro c; exact absurd (UInt8.lt_trans h1 c) (UInt8.lt_irrefl x)
        simp [h1, h2]
      · simp only [h1, if_false] at h
        by_cases h2 : y < x
        · simp [h2] at h
        · simp only [h2, if_false] at h ⊢
          simp only [h1, if_false]
          exact ih ys h

theorem dictInsert_at_end (k : Bytes) (v : BValue) (acc : List (Bytes × BValue))
    (h : ∀ e ∈ acc, bytesLt e.1 k = true) : dictInsert k v acc = acc ++ [(k, v)] := by
  induction acc with
  | nil => rfl
  | cons e es ih =>
    obtain ⟨k', v'⟩ := e
    have h1 : bytesLt k' k = true := h (k', v') (by simp)
    have h2 : bytesLt k k' = false := bytesLt_asymm k' k h1
    simp only [dictInsert, h2, Bool.false_eq_true, if_false, h1, if_true, List.cons_append]
    rw [ih (fun e he => h e (by simp [he]))]

theorem foldl_insert_ascending (l acc : List (Bytes × BValue)) (hl : ascending l = true)
    (hacc : ∀ a ∈ acc, ∀ e ∈ l, bytesLt a.1 e.1 = true) :
    l.foldl (fun acc kv => dictInsert kv.1 kv.2 acc) acc = acc ++ l := by
  induction l generalizing acc with
  | nil => simp
  | cons e es ih =>
    obtain ⟨k, v⟩ := e
    simp only [ascending, Bool.and_eq_true, List.all_eq_true] at hl
    simp only [List.foldl_cons]
    rw [dictInsert_at_end k v acc (fun a ha => hacc a ha (k, v) (by simp))]
    rw [ih (acc ++ [(k, v)]) hl.2 ?_]
    · simp
    · intro a ha e he
      simp only [List.mem_append, List.mem_singleton] at ha
      rcases ha with ha | rfl
      · exact hacc a ha e (by simp [he])
      · exact hl.1 e he

theorem mkDict_ascending (d : List (Bytes × BValue)) (h : ascending d = true) : mkDict d = d := by
  have := foldl_insert_ascending d [] h (by simp)
  simpa [mkDict] using this

/-! ### Decoding an encoding -/

def consAll (vs : List BValue) (r : DRes) : DRes := vs.foldr consV r

theorem consAll_ok (vs : List BValue) (rest : Bytes) : consAll vs (.ok ([], rest)) = .ok (vs, rest) := by
  induction vs with
  | nil => rfl
  | cons v vs ih => simp [consAll, consV] at ih ⊢; rw [ih]

/-- The flat `[key, value, key, value, …]` list a dictionary decodes to before `parse_dict` pairs it up. -/
def flat : List (Bytes × BValue) → List BValue
  | [] => []
  | (k, v) :: rest => .str k :: v :: flat rest

theorem pairUp_flat (d : List (Bytes × BValue)) : pairUp (flat d) = some d := by
  induction d with
  | nil => rfl
  | cons e es ih => obtain ⟨k, v⟩ := e; simp [flat, pairUp, ih]

theorem str_enc (s rest : Bytes) (hlen : s.length < 2 ^ 64) (c w : Bool) :
    valuesU c ((natDec s.length ++ cColon :: s) ++ rest) w = consV (.str s) (valuesU c rest w) := by
  cases hd : natDec s.length with
  | nil => exact absurd hd (natDec_ne_nil _)
  | cons d0 ds =>
    have hdig : isDigit d0 = true := by
      have := natDec_all_digits s.length; rw [hd] at this
      simp only [List.all_cons, Bool.and_eq_true] at this; exact this.1
    have := parseByteStr_enc s rest hlen d0 ds hd
    simp only [List.cons_append, List.append_assoc]
    exact valuesU_str c d0 _ s rest w hdig this

mutual
/-- Decoding `encode v ++ rest` yields `v` followed by whatever `rest` decodes to — for the implementation's
    grammar and for the strict one, at any nesting level. -/
theorem dec_enc (v : BValue) (hw : wf v = true) (c : Bool) (rest : Bytes) (w : Bool) :
    valuesU c (encode v ++ rest) w = consV v (valuesU c rest w) := by
  match v, hw with
  | .int i, hw =>
    simp only [wf, decide_eq_true_eq] at hw
    simp only [encode, List.cons_append, List.append_assoc, List.singleton_append]
    exact valuesU_int c _ rest i w (parseInt_enc i rest hw.1 hw.2)
  | .str s, hw =>
    simp only [wf, decide_eq_true_eq] at hw
    simp only [encode]
    exact str_enc s rest hw c w
  | .list items, hw =>
    simp only [wf] at hw
    simp only [encode, List.cons_append, List.append_assoc, List.singleton_append]
    have hin : valuesU c (encodeList items ++ cE :: rest) true = .ok (items, rest) := by
      rw [dec_encList items hw c (cE :: rest) true, valuesU_end, consAll_ok]
    exact valuesU_list c _ rest items w hin
  | .dict d, hw =>
    simp only [wf, Bool.and_eq_true] at hw
    simp only [encode, List.cons_append, List.append_assoc, List.singleton_append]
    have hin : valuesU c (encodeDict d ++ cE :: rest) true = .ok (flat d, rest) := by
      rw [dec_encDict d hw.2 c (cE :: rest) true, valuesU_end, consAll_ok]
    have := valuesU_dict c _ rest (flat d) d w hin (pairUp_flat d)
    rw [mkDict_ascending d hw.1] at this
    exact this
theorem dec_encList (l : List BValue) (hw : wfList l = true) (c : Bool) (rest : Bytes) (w : Bool) :
    valuesU c (encodeList l ++ rest) w = consAll l (valuesU c rest w) := by
  match l, hw with
  | [], _ => rfl
  | v :: vs, hw =>
    simp only [wfList, Bool.and_eq_true] at hw
    simp only [encodeList, List.append_assoc]
    rw [dec_enc v hw.1 c _ w, dec_encList vs hw.2 c rest w]; rfl
theorem dec_encDict (d : List (Bytes × BValue)) (hw : wfEntries d = true) (c : Bool) (rest : Bytes) (w : Bool) :
    valuesU c (encodeDict d ++ rest) w = consAll (flat d) (valuesU c rest w) := by
  match d, hw with
  | [], _ => rfl
  | (k, v) :: es, hw =>
    simp only [wfEntries, Bool.and_eq_true, decide_eq_true_eq] at hw
    simp only [encodeDict, List.append_assoc]
    have hk := str_enc k (encode v ++ (encodeDict es ++ rest)) hw.1.1 c w
    simp only [List.append_assoc, List.cons_append] at hk ⊢
    rw [hk, dec_enc v hw.1.2 c _ w, dec_encDict es hw.2 c rest w]; rfl
end

/-- **T1.** Decoding the encoding of any value yields exactly that value (here: of any sequence of values). -/
theorem T1_decode_encode (v : BValue) (hw : wf v = true) : decodeImpl (encode v) = some [v] := by
  have h := dec_enc v hw true [] false
  simp only [List.append_nil] at h
  unfold decodeImpl
  have : values true ((encode v).length + 1) (encode v) false = valuesU true (encode v) false := rfl
  rw [this, h, valuesU_nil]
  simp [consV, toOpt]

theorem T1_decode_encode_seq (vs : List BValue) (hw : wfList vs = true) : decodeImpl (encodeList vs) = some vs := by
  have h := dec_encList vs hw true [] false
  simp only [List.append_nil] at h
  unfold decodeImpl
  have : values true ((encodeList vs).length + 1) (encodeList vs) false = valuesU true (encodeList vs) false := rfl
  rw [this, h, valuesU_nil]
  simp only [Bool.false_and, Bool.false_eq_true, if_false, consAll_ok, toOpt]

/-- The encoder's output is also accepted by the strict grammar (it is well-formed bencode). -/
theorem T2_encoding_is_strictly_well_formed (v : BValue) (hw : wf v = true) : decodeStrict (encode v) = some [v] := by
  have h := dec_enc v hw false [] false
  simp only [List.append_nil] at h
  unfold decodeStrict decodeStrictE
  have : values false ((encode v).length + 1) (encode v) false = valuesU false (encode v) false := rfl
  rw [this, h, valuesU_nil]
  simp [consV, toOpt]

/-! ### T2: the output is canonical -/

/-- Integers are written in shortest decimal form: no leading zero (except `0` itself), no `-0`, no `+`. -/
theorem T2_int_shortest (i : Int) :
    (∀ b ∈ intDec i, isDigit b = true ∨ b = cMinus) ∧
    (i ≥ 0 → ((intDec i).length ≥ 2 → (intDec i).head? ≠ some 48) ∧ (intDec i).all isDigit = true) ∧
    (i < 0 → ∃ ds, intDec i = cMinus :: ds ∧ ds.head? ≠ some 48 ∧ ds.all isDigit = true ∧ ds ≠ []) := by
  have hnd := natDec_all_digits i.natAbs
  obtain ⟨hh1, hh2⟩ := natDec_head i.natAbs
  refine ⟨?_, ?_, ?_⟩
  · intro b hb
    unfold intDec at hb
    split at hb
    · simp only [List.mem_cons] at hb
      rcases hb with rfl | hb
      · right; rfl
      · left; exact List.all_eq_true.mp hnd b hb
    · left; exact List.all_eq_true.mp hnd b hb
  · intro h
    have : ¬ i < 0 := by omega
    simp only [intDec, this, if_false]
    exact ⟨hh1, hnd⟩
  · intro h
    simp only [intDec, h, if_true]
    exact ⟨_, rfl, hh2 (by omega), hnd, natDec_ne_nil _⟩

/-- Strings (and keys) are length-prefixed with the shortest decimal length; dictionary keys are emitted in the
    order of the model's association list, which `wf` requires to be strictly ascending. -/
theorem T2_dict_keys_ascending (d : List (Bytes × BValue)) (h : wf (.dict d) = true) : ascending d = true := by
  simp only [wf, Bool.and_eq_true] at h; exact h.1

/-- **T3.** Re-encoding the decoding of a canonical document (the encoding of well-formed values) reproduces the
    document byte for byte. -/
theorem T3_reencode_canonical (vs : List BValue) (hw : wfList vs = true) :
    (decodeImpl (encodeList vs)).map encodeList = some (encodeList vs) := by
  rw [T1_decode_encode_seq vs hw]; rfl

/-! ### Non-vacuity (tests) -/

example : wf (.dict [([97], .int (-5)), ([97, 98], .list [.str [58, 101], .dict []])]) = true := by decide
-- "d1:ai-5e2:abl2::edeee"
example : encode (.dict [([97], .int (-5)), ([97, 98], .list [.str [58, 101], .dict []])]) =
    [100, 49, 58, 97, 105, 45, 53, 101, 50, 58, 97, 98, 108, 50, 58, 58, 101, 100, 101, 101, 101] := by decide
example : natDec 1234567890 = [49, 50, 51, 52, 53, 54, 55, 56, 57, 48] := by decide

end Rdest.Props.C15
