import RdestModel.Bencode.Encode
namespace Rdest.Props.C15
open Rdest.Bencode
theorem placeholder : isDigit 48 = true := by decide
end Rdest.Props.C15
