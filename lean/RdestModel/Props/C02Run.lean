/-
  C02, the download itself — an honest peer's answers complete the piece, and a seeder completes the torrent.

  Part 1 (connection task): from the moment a piece is assigned, if the remote answers the outstanding requests in
  order with the real bytes, the task asks for every further block, ends up with exactly the piece's content in its
  buffer, finds the hash equal, stores the piece and reports `PieceDone` — for every piece length and content.
-/
import RdestModel.Props.C10
import RdestModel.Lemmas.Loop
set_option linter.unusedSimpArgs false
set_option linter.unusedVariables false
namespace Rdest.Props.C02Run
open Rdest Rdest.Wire Rdest.Gen Rdest.Swarm Rdest.Props.C10

/-- The outstanding blocks `rem` continue at offset `p` and end exactly at the piece length `L`, none empty. -/
def Chain (L : Nat) : Nat → List (Nat × Nat) → Prop
  | p, [] => p = L
  | p, (b, l) :: rest => b = p ∧ 0 < l ∧ p + l ≤ L ∧ Chain L (p + l) rest

/-- The receive buffer when everything before offset `p` has arrived: the content up to `p`, zeros behind. -/
def pre (content : Bytes) (p : Nat) : Bytes := content.take p ++ List.replicate (content.length - p) 0

/-- What an honest peer sends for the request `(begin, length)`. -/
def honestBlock (content : Bytes) (bl : Nat × Nat) : Bytes := (content.drop bl.1).take bl.2

/-- `PieceRx` when the blocks `rem` are still to come (two of them requested, the way the task pipelines). -/
def rxOf (i : Nat) (h content : Bytes) (p : Nat) (rem : List (Nat × Nat)) : Rx :=
  { index := i, hash := h, buff := pre content p, requested := rem.take 2, left := rem.drop 2 }

theorem pre_length (content : Bytes) (p : Nat) (hp : p ≤ content.length) : (pre content p).length = content.length := by
  simp [pre, List.length_take]; omega

theorem pre_full (content : Bytes) : pre content content.length = content := by
  simp [pre]

theorem honestBlock_length (content : Bytes) (b l : Nat) (h : b + l ≤ content.length) :
    (honestBlock content (b, l)).length = l := by
  simp [honestBlock, List.length_take, List.length_drop]; omega

/-- Writing the honest block at the frontier moves the frontier. -/
theorem write_pre (content : Bytes) (p l : Nat) (h : p + l ≤ content.length) :
    writeSlice (pre content p) p (honestBlock content (p, l)) = pre content (p + l) := by
  have hl := honestBlock_length content p l h
  unfold writeSlice
  rw [hl]
  have h1 : (pre content p).take p = content.take p := by
    unfold pre
    rw [List.take_append_of_le_length (by simp [List.length_take]; omega)]
    rw [List.take_take]; congr 1; omega
  have h2 : (pre content p).drop (p + l) = List.replicate (content.length - (p + l)) 0 := by
    unfold pre
    have hlen : (content.take p).length = p := by simp [List.length_take]; omega
    rw [List.drop_append, hlen]
    have : List.drop (p + l) (List.take p content) = [] := by
      apply List.drop_eq_nil_of_le; rw [hlen]; omega
    rw [this, List.nil_append, List.drop_replicate]
    congr 1; omega
  rw [h1, h2]
  unfold pre honestBlock
  rw [List.take_add]

/-- The task once the piece is through: nothing in progress, the keep-alive counter reset by the `Piece` frame. -/
def base (s : HState) : HState := { s with keepAlive := 0, pieceRx := none }

theorem base_upd (s : HState) (x : Option Rx) : base { s with keepAlive := 0, pieceRx := x } = base s := rfl

/-- The request for the next block not yet asked for. -/
def nextRequest (i : Nat) (rest : List (Nat × Nat)) : List HOut :=
  (rest.head?.map fun r2 => HOut.write (.request i r2.1 r2.2)).toList

/-- An honest answer to the oldest outstanding request while more blocks are to come: the block is accepted, the
    frontier moves, the next block not yet asked for (if any) is requested — nothing else happens. -/
theorem step_mid (sha1 : Bytes → Bytes) (d : Bytes → Option Bytes) (s : HState) (i : Nat) (h content : Bytes)
    (p b l : Nat) (r1 : Nat × Nat) (rest : List (Nat × Nat)) (rep : Rep)
    (ha : s.alive = true) (hh : s.hsDone = true)
    (hrx : s.pieceRx = some (rxOf i h content p ((b, l) :: r1 :: rest)))
    (hc : Chain content.length p ((b, l) :: r1 :: rest)) :
    hstep sha1 d s (.frame (.piece i b (honestBlock content (b, l))) rep) =
      some ({ s with keepAlive := 0, pieceRx := some (rxOf i h content (p + l) (r1 :: rest)) },
            nextRequest i rest, none) := by
  obtain ⟨rfl, hl0, hle, hc2⟩ := hc
  obtain ⟨b1, l1⟩ := r1
  obtain ⟨rfl, hl1, _, _⟩ := hc2
  have hlen := honestBlock_length content b l hle
  have hne : ((b + l, l1) : Nat × Nat) ≠ (b, l) := by
    intro hc; have := congrArg Prod.fst hc; simp at this; omega
  simp only [hstep, ha, Bool.not_true, Bool.false_eq_true, if_false, handleFrame, kaAfter, hh, isHandshake,
    Bool.and_false, dispatch, onPiece, hrx, rxOf, List.take, List.drop, hlen, ne_eq, not_true_eq_false, false_or,
    List.contains_cons, BEq.rfl, Bool.true_or, not_true_eq_false, if_false, List.filter_cons, decide_not,
    decide_true, Bool.not_true, write_pre content b l hle]
  have hf : (decide ((b + l, l1) = (b, l))) = false := by simpa using hne
  simp only [hf, Bool.not_false, if_true, List.filter_nil, List.isEmpty_cons, Bool.false_eq_true, and_false,
    if_false, sendRequest]
  cases rest with
  | nil => simp [List.isEmpty, nextRequest]
  | cons r2 rest' => obtain ⟨b2, l2⟩ := r2; simp [nextRequest]

/-- The honest answer to the last outstanding request: the buffer is the piece, the hash fits, the piece is stored under
    its listed hash and `PieceDone` is reported; what follows is the reaction to the manager's reply. -/
theorem step_last (sha1 : Bytes → Bytes) (d : Bytes → Option Bytes) (s : HState) (i : Nat) (content : Bytes)
    (p b l : Nat) (rep : Rep) (ha : s.alive = true) (hh : s.hsDone = true)
    (hrx : s.pieceRx = some (rxOf i (sha1 content) content p [(b, l)]))
    (hc : Chain content.length p [(b, l)]) :
    hstep sha1 d s (.frame (.piece i b (honestBlock content (b, l))) rep) =
      match pieceFinishReply (base s) rep with
      | some (s2, o2, true) => some (s2, [HOut.save (sha1 content) content, .cmd .pieceDone] ++ o2, none)
      | some (s2, o2, false) => some (terminate s2 ([HOut.save (sha1 content) content, .cmd .pieceDone] ++ o2) true)
      | none => none := by
  obtain ⟨rfl, hl0, hle, hend⟩ := hc
  simp only [Chain] at hend
  have hlen := honestBlock_length content b l hle
  have hfull : pre content (b + l) = content := by rw [hend]; exact pre_full content
  simp only [hstep, ha, Bool.not_true, Bool.false_eq_true, if_false, handleFrame, kaAfter, hh, isHandshake,
    Bool.and_false, dispatch, onPiece, hrx, rxOf, List.take, List.drop, hlen, ne_eq, not_true_eq_false, false_or,
    List.contains_cons, BEq.rfl, Bool.true_or, not_true_eq_false, if_false, List.filter_cons, decide_not,
    decide_true, Bool.not_true, write_pre content b l hle, hfull, List.filter_nil, List.isEmpty_nil, and_self, if_true]
  have hb : ({ s with keepAlive := 0, pieceRx := none } : HState) = base s := rfl
  simp only [hh, ha] at hb
  rw [hb]
  generalize pieceFinishReply (base s) rep = q
  rcases q with _ | ⟨s2, o2, _ | _⟩ <;> simp

/-- The seeder answers the oldest outstanding request, again and again, with the real bytes of the piece. -/
def feed (sha1 : Bytes → Bytes) (d : Bytes → Option Bytes) (i : Nat) (content : Bytes) (rep : Rep) :
    List (Nat × Nat) → HState → Option HRes
  | [], s => some (s, [], none)
  | [bl], s => hstep sha1 d s (.frame (.piece i bl.1 (honestBlock content bl)) rep)
  | bl :: r1 :: rest, s =>
    match hstep sha1 d s (.frame (.piece i bl.1 (honestBlock content bl)) .none) with
    | some (s', o, none) => (feed sha1 d i content rep (r1 :: rest) s').map fun r => (r.1, o ++ r.2.1, r.2.2)
    | other => other

/-- The requests the task writes while the blocks `rem` arrive: those not yet asked for, in order. -/
def laterRequests (i : Nat) (rem : List (Nat × Nat)) : List HOut :=
  (rem.drop 2).map fun bl => HOut.write (.request i bl.1 bl.2)

/-- **Part 1 (every piece length, every content).** From any moment of the download of a piece — blocks `rem`
    outstanding, everything before them received — an honest peer's in-order answers make the task request every
    remaining block exactly once, in order, store exactly the piece's bytes under the listed hash and report
    `PieceDone`; the run ends with the reaction to the manager's reply to that report. -/
theorem honest_answers_complete_the_piece (sha1 : Bytes → Bytes) (d : Bytes → Option Bytes) (i : Nat) (content : Bytes)
    (rep : Rep) (rem : List (Nat × Nat)) (hne : rem ≠ []) (s : HState) (p : Nat)
    (ha : s.alive = true) (hh : s.hsDone = true)
    (hrx : s.pieceRx = some (rxOf i (sha1 content) content p rem)) (hc : Chain content.length p rem) :
    feed sha1 d i content rep rem s =
      match pieceFinishReply (base s) rep with
      | some (s2, o2, true) =>
        some (s2, laterRequests i rem ++ [HOut.save (sha1 content) content, .cmd .pieceDone] ++ o2, none)
      | some (s2, o2, false) =>
        some ({ s2 with alive := false },
          laterRequests i rem ++ [HOut.save (sha1 content) content, .cmd .pieceDone] ++ o2, some true)
      | none => none := by
  induction rem generalizing s p with
  | nil => exact absurd rfl hne
  | cons bl rest ih =>
    obtain ⟨b, l⟩ := bl
    cases rest with
    | nil =>
      simp only [feed, laterRequests, List.drop, List.map_nil, List.nil_append]
      rw [step_last sha1 d s i content p b l rep ha hh hrx hc]
      generalize pieceFinishReply (base s) rep = q
      rcases q with _ | ⟨s2, o2, _ | _⟩ <;> simp [terminate]
    | cons r1 rest' =>
      have hmid := step_mid sha1 d s i (sha1 content) content p b l r1 rest' .none ha hh hrx hc
      simp only [feed, hmid]
      have hc' : Chain content.length (p + l) (r1 :: rest') := by
        obtain ⟨_, _, _, h4⟩ := hc; exact h4
      have := ih (by simp) { s with keepAlive := 0, pieceRx := some (rxOf i (sha1 content) content (p + l) (r1 :: rest')) }
        (p + l) ha hh rfl hc'
      rw [this, base_upd]
      have hl : ∀ (x : List HOut), nextRequest i rest' ++ (laterRequests i (r1 :: rest') ++ x) =
          laterRequests i ((b, l) :: r1 :: rest') ++ x := by
        intro x
        cases rest' with
        | nil => simp [laterRequests, nextRequest]
        | cons r2 r3 => simp [laterRequests, nextRequest]
      generalize pieceFinishReply (base s) rep = q
      rcases q with _ | ⟨s2, o2, _ | _⟩ <;> simp [hl, List.append_assoc]

/-! ### The assignment: `new_piece_request` starts exactly such a run -/

theorem chain_tiles (L : Nat) (n k : Nat) (hn : n = (L + 16384 - 1) / 16384) (hk : k ≤ n) :
    Chain L (min (k * 16384) L) ((List.range' k (n - k)).map (tile 16384 L)) := by
  induction hm : n - k generalizing k with
  | zero =>
    have : k = n := by omega
    subst this
    simp only [List.range'_zero, List.map_nil, Chain]
    apply Nat.min_eq_right
    subst hn
    have h := Nat.div_add_mod (L + 16384 - 1) 16384
    have hm := Nat.mod_lt (L + 16384 - 1) (by decide : 0 < 16384)
    omega
  | succ m ih =>
    have hkn : k < n := by omega
    have hlt : k * 16384 < L := (numBlocks_spec 16384 L (by decide) k).mp (by rw [← hn]; exact hkn)
    obtain ⟨h1, h2, h3⟩ := tile_props 16384 L (by decide) k hlt
    simp only [List.range'_succ, List.map_cons, Chain]
    have hmin : min (k * 16384) L = k * 16384 := Nat.min_eq_left (by omega)
    refine ⟨by simp [tile, hmin], h1, ?_, ?_⟩
    · rw [hmin]; simp only [tile] at h3 ⊢; omega
    · have := ih (k + 1) (by omega) (by omega)
      rw [hmin]
      have he : k * 16384 + (tile 16384 L k).2 = min ((k + 1) * 16384) L := by simp only [tile] at h3 ⊢; omega
      rw [he]; exact this

/-- The blocks of a piece of length `L`, as `PieceRx::left` lists them, form a chain from 0 to `L`. -/
theorem chain_leftImpl (L : Nat) : Chain L 0 (leftImpl L) := by
  have h := chain_tiles L ((L + 16384 - 1) / 16384) 0 rfl (Nat.zero_le _)
  simp only [Nat.zero_mul, Nat.zero_min, Nat.sub_zero] at h
  unfold leftImpl
  rw [PIECE_BLOCK_SIZE_val, leftBlocks_eq_tiles 16384 L (by decide), List.range_eq_range']
  exact h

theorem leftImpl_ne_nil (L : Nat) (hL : 0 < L) : leftImpl L ≠ [] := by
  intro h
  have := chain_leftImpl L
  rw [h] at this
  simp only [Chain] at this
  omega

/-- The first two requests of an assignment. -/
def firstRequests (i : Nat) (rem : List (Nat × Nat)) : List HOut :=
  (rem.take 2).map fun bl => HOut.write (.request i bl.1 bl.2)

/-- `new_piece_request`: a zeroed buffer, the first two blocks requested, the rest to come. -/
theorem newPieceRequest_rx (s : HState) (wi : Bool) (rd : ReqData) (content : Bytes) (hlen : content.length = rd.length) :
    newPieceRequest s wi rd =
      ({ s with pieceRx := some (rxOf rd.index rd.hash content 0 (leftImpl rd.length)) },
        (if wi then [HOut.write .interested] else []) ++ firstRequests rd.index (leftImpl rd.length)) := by
  have hpre : pre content 0 = List.replicate rd.length 0 := by simp [pre, hlen]
  unfold newPieceRequest newRx rxOf firstRequests
  rw [hpre]
  rcases hl : leftImpl rd.length with _ | ⟨⟨b0, l0⟩, _ | ⟨⟨b1, l1⟩, rest⟩⟩ <;> simp [sendRequest, hl]

end Rdest.Props.C02Run
