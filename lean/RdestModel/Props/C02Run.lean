/-
  C02, the download itself — an honest peer's answers complete the piece, and a seeder completes the torrent.

  Part 1 (connection task): from the moment a piece is assigned, if the remote answers the outstanding requests in
  order with the real bytes, the task asks for every further block, ends up with exactly the piece's content in its
  buffer, finds the hash equal, stores the piece and reports `PieceDone` — for every piece length and content.
-/
import RdestModel.Props.C10
import RdestModel.Lemmas.Loop
import RdestModel.Props.C01
import RdestModel.Props.C02
set_option linter.unusedSimpArgs false
set_option linter.unusedVariables false
namespace Rdest.Props.C02Run
open Rdest Rdest.Wire Rdest.Gen Rdest.Swarm Rdest.Props.C10

/-- The outstanding blocks `rem` continue at offset `p` and end exactly at the piece length `L`, none empty. -/
def Chain (L : Nat) : Nat → List (Nat × Nat) → Prop
  | p, [] => p = L
  | p, (b, l) :: rest => b = p ∧ 0 < l ∧ p + l ≤ L ∧ Chain L (p + l) rest

/-- The receive buffer when everything before offset `p` has arrived: the content up to `p`, zeros behind. -/
def pre (content : Bytes) (p : Nat) : Bytes := content.take p ++ List.replicate (content.length - p) 0

/-- What an honest peer sends for the request `(begin, length)`. -/
def honestBlock (content : Bytes) (bl : Nat × Nat) : Bytes := (content.drop bl.1).take bl.2

/-- `PieceRx` when the blocks `rem` are still to come (two of them requested, the way the task pipelines). -/
def rxOf (i : Nat) (h content : Bytes) (p : Nat) (rem : List (Nat × Nat)) : Rx :=
  { index := i, hash := h, buff := pre content p, requested := rem.take 2, left := rem.drop 2 }

theorem pre_length (content : Bytes) (p : Nat) (hp : p ≤ content.length) : (pre content p).length = content.length := by
  simp [pre, List.length_take]; omega

theorem pre_full (content : Bytes) : pre content content.length = content := by
  simp [pre]

theorem honestBlock_length (content : Bytes) (b l : Nat) (h : b + l ≤ content.length) :
    (honestBlock content (b, l)).length = l := by
  simp [honestBlock, List.length_take, List.length_drop]; omega

/-- Writing the honest block at the frontier moves the frontier. -/
theorem write_pre (content : Bytes) (p l : Nat) (h : p + l ≤ content.length) :
    writeSlice (pre content p) p (honestBlock content (p, l)) = pre content (p + l) := by
  have hl := honestBlock_length content p l h
  unfold writeSlice
  rw [hl]
  have h1 : (pre content p).take p = content.take p := by
    unfold pre
    rw [List.take_append_of_le_length (by simp [List.length_take]; omega)]
    rw [List.take_take]; congr 1; omega
  have h2 : (pre content p).drop (p + l) = List.replicate (content.length - (p + l)) 0 := by
    unfold pre
    have hlen : (content.take p).length = p := by simp [List.length_take]; omega
    rw [List.drop_append, hlen]
    have : List.drop (p + l) (List.take p content) = [] := by
      apply List.drop_eq_nil_of_le; rw [hlen]; omega
    rw [this, List.nil_append, List.drop_replicate]
    congr 1; omega
  rw [h1, h2]
  unfold pre honestBlock
  rw [List.take_add]

/-- The task once the piece is through: nothing in progress, the keep-alive counter reset by the `Piece` frame. -/
def base (s : HState) : HState := { s with keepAlive := 0, pieceRx := none }

theorem base_upd (s : HState) (x : Option Rx) : base { s with keepAlive := 0, pieceRx := x } = base s := rfl

/-- The request for the next block not yet asked for. -/
def nextRequest (i : Nat) (rest : List (Nat × Nat)) : List HOut :=
  (rest.head?.map fun r2 => HOut.write (.request i r2.1 r2.2)).toList

/-- An honest answer to the oldest outstanding request while more blocks are to come: the block is accepted, the
    frontier moves, the next block not yet asked for (if any) is requested — nothing else happens. -/
theorem step_mid (sha1 : Bytes → Bytes) (d : Bytes → Option Bytes) (s : HState) (i : Nat) (h content : Bytes)
    (p b l : Nat) (r1 : Nat × Nat) (rest : List (Nat × Nat)) (rep : Rep)
    (ha : s.alive = true) (hh : s.hsDone = true)
    (hrx : s.pieceRx = some (rxOf i h content p ((b, l) :: r1 :: rest)))
    (hc : Chain content.length p ((b, l) :: r1 :: rest)) :
    hstep sha1 d s (.frame (.piece i b (honestBlock content (b, l))) rep) =
      some ({ s with keepAlive := 0, pieceRx := some (rxOf i h content (p + l) (r1 :: rest)) },
            nextRequest i rest, none) := by
  obtain ⟨rfl, hl0, hle, hc2⟩ := hc
  obtain ⟨b1, l1⟩ := r1
  obtain ⟨rfl, hl1, _, _⟩ := hc2
  have hlen := honestBlock_length content b l hle
  have hne : ((b + l, l1) : Nat × Nat) ≠ (b, l) := by
    intro hc; have := congrArg Prod.fst hc; simp at this; omega
  simp only [hstep, ha, Bool.not_true, Bool.false_eq_true, if_false, handleFrame, kaAfter, hh, isHandshake,
    Bool.and_false, dispatch, onPiece, hrx, rxOf, List.take, List.drop, hlen, ne_eq, not_true_eq_false, false_or,
    List.contains_cons, BEq.rfl, Bool.true_or, not_true_eq_false, if_false, List.filter_cons, decide_not,
    decide_true, Bool.not_true, write_pre content b l hle]
  have hf : (decide ((b + l, l1) = (b, l))) = false := by simpa using hne
  simp only [hf, Bool.not_false, if_true, List.filter_nil, List.isEmpty_cons, Bool.false_eq_true, and_false,
    if_false, sendRequest]
  cases rest with
  | nil => simp [List.isEmpty, nextRequest]
  | cons r2 rest' => obtain ⟨b2, l2⟩ := r2; simp [nextRequest]

/-- The honest answer to the last outstanding request: the buffer is the piece, the hash fits, the piece is stored under
    its listed hash and `PieceDone` is reported; what follows is the reaction to the manager's reply. -/
theorem step_last (sha1 : Bytes → Bytes) (d : Bytes → Option Bytes) (s : HState) (i : Nat) (content : Bytes)
    (p b l : Nat) (rep : Rep) (ha : s.alive = true) (hh : s.hsDone = true)
    (hrx : s.pieceRx = some (rxOf i (sha1 content) content p [(b, l)]))
    (hc : Chain content.length p [(b, l)]) :
    hstep sha1 d s (.frame (.piece i b (honestBlock content (b, l))) rep) =
      match pieceFinishReply (base s) rep with
      | some (s2, o2, true) => some (s2, [HOut.save (sha1 content) content, .cmd .pieceDone] ++ o2, none)
      | some (s2, o2, false) => some (terminate s2 ([HOut.save (sha1 content) content, .cmd .pieceDone] ++ o2) true)
      | none => none := by
  obtain ⟨rfl, hl0, hle, hend⟩ := hc
  simp only [Chain] at hend
  have hlen := honestBlock_length content b l hle
  have hfull : pre content (b + l) = content := by rw [hend]; exact pre_full content
  simp only [hstep, ha, Bool.not_true, Bool.false_eq_true, if_false, handleFrame, kaAfter, hh, isHandshake,
    Bool.and_false, dispatch, onPiece, hrx, rxOf, List.take, List.drop, hlen, ne_eq, not_true_eq_false, false_or,
    List.contains_cons, BEq.rfl, Bool.true_or, not_true_eq_false, if_false, List.filter_cons, decide_not,
    decide_true, Bool.not_true, write_pre content b l hle, hfull, List.filter_nil, List.isEmpty_nil, and_self, if_true]
  have hb : ({ s with keepAlive := 0, pieceRx := none } : HState) = base s := rfl
  simp only [hh, ha] at hb
  rw [hb]
  generalize pieceFinishReply (base s) rep = q
  rcases q with _ | ⟨s2, o2, _ | _⟩ <;> simp

/-- The seeder answers the oldest outstanding request, again and again, with the real bytes of the piece. -/
def feed (sha1 : Bytes → Bytes) (d : Bytes → Option Bytes) (i : Nat) (content : Bytes) (rep : Rep) :
    List (Nat × Nat) → HState → Option HRes
  | [], s => some (s, [], none)
  | [bl], s => hstep sha1 d s (.frame (.piece i bl.1 (honestBlock content bl)) rep)
  | bl :: r1 :: rest, s =>
    match hstep sha1 d s (.frame (.piece i bl.1 (honestBlock content bl)) .none) with
    | some (s', o, none) => (feed sha1 d i content rep (r1 :: rest) s').map fun r => (r.1, o ++ r.2.1, r.2.2)
    | other => other

/-- The requests the task writes while the blocks `rem` arrive: those not yet asked for, in order. -/
def laterRequests (i : Nat) (rem : List (Nat × Nat)) : List HOut :=
  (rem.drop 2).map fun bl => HOut.write (.request i bl.1 bl.2)

/-- **Part 1 (every piece length, every content).** From any moment of the download of a piece — blocks `rem`
    outstanding, everything before them received — an honest peer's in-order answers make the task request every
    remaining block exactly once, in order, store exactly the piece's bytes under the listed hash and report
    `PieceDone`; the run ends with the reaction to the manager's reply to that report. -/
theorem honest_answers_complete_the_piece (sha1 : Bytes → Bytes) (d : Bytes → Option Bytes) (i : Nat) (content : Bytes)
    (rep : Rep) (rem : List (Nat × Nat)) (hne : rem ≠ []) (s : HState) (p : Nat)
    (ha : s.alive = true) (hh : s.hsDone = true)
    (hrx : s.pieceRx = some (rxOf i (sha1 content) content p rem)) (hc : Chain content.length p rem) :
    feed sha1 d i content rep rem s =
      match pieceFinishReply (base s) rep with
      | some (s2, o2, true) =>
        some (s2, laterRequests i rem ++ [HOut.save (sha1 content) content, .cmd .pieceDone] ++ o2, none)
      | some (s2, o2, false) =>
        some ({ s2 with alive := false },
          laterRequests i rem ++ [HOut.save (sha1 content) content, .cmd .pieceDone] ++ o2, some true)
      | none => none := by
  induction rem generalizing s p with
  | nil => exact absurd rfl hne
  | cons bl rest ih =>
    obtain ⟨b, l⟩ := bl
    cases rest with
    | nil =>
      simp only [feed, laterRequests, List.drop, List.map_nil, List.nil_append]
      rw [step_last sha1 d s i content p b l rep ha hh hrx hc]
      generalize pieceFinishReply (base s) rep = q
      rcases q with _ | ⟨s2, o2, _ | _⟩ <;> simp [terminate]
    | cons r1 rest' =>
      have hmid := step_mid sha1 d s i (sha1 content) content p b l r1 rest' .none ha hh hrx hc
      simp only [feed, hmid]
      have hc' : Chain content.length (p + l) (r1 :: rest') := by
        obtain ⟨_, _, _, h4⟩ := hc; exact h4
      have := ih (by simp) { s with keepAlive := 0, pieceRx := some (rxOf i (sha1 content) content (p + l) (r1 :: rest')) }
        (p + l) ha hh rfl hc'
      rw [this, base_upd]
      have hl : ∀ (x : List HOut), nextRequest i rest' ++ (laterRequests i (r1 :: rest') ++ x) =
          laterRequests i ((b, l) :: r1 :: rest') ++ x := by
        intro x
        cases rest' with
        | nil => simp [laterRequests, nextRequest]
        | cons r2 r3 => simp [laterRequests, nextRequest]
      generalize pieceFinishReply (base s) rep = q
      rcases q with _ | ⟨s2, o2, _ | _⟩ <;> simp [hl, List.append_assoc]

/-! ### The assignment: `new_piece_request` starts exactly such a run -/

theorem chain_tiles (L : Nat) (n k : Nat) (hn : n = (L + 16384 - 1) / 16384) (hk : k ≤ n) :
    Chain L (min (k * 16384) L) ((List.range' k (n - k)).map (tile 16384 L)) := by
  induction hm : n - k generalizing k with
  | zero =>
    have : k = n := by omega
    subst this
    simp only [List.range'_zero, List.map_nil, Chain]
    apply Nat.min_eq_right
    subst hn
    have h := Nat.div_add_mod (L + 16384 - 1) 16384
    have hm := Nat.mod_lt (L + 16384 - 1) (by decide : 0 < 16384)
    omega
  | succ m ih =>
    have hkn : k < n := by omega
    have hlt : k * 16384 < L := (numBlocks_spec 16384 L (by decide) k).mp (by rw [← hn]; exact hkn)
    obtain ⟨h1, h2, h3⟩ := tile_props 16384 L (by decide) k hlt
    simp only [List.range'_succ, List.map_cons, Chain]
    have hmin : min (k * 16384) L = k * 16384 := Nat.min_eq_left (by omega)
    refine ⟨by simp [tile, hmin], h1, ?_, ?_⟩
    · rw [hmin]; simp only [tile] at h3 ⊢; omega
    · have := ih (k + 1) (by omega) (by omega)
      rw [hmin]
      have he : k * 16384 + (tile 16384 L k).2 = min ((k + 1) * 16384) L := by simp only [tile] at h3 ⊢; omega
      rw [he]; exact this

/-- The blocks of a piece of length `L`, as `PieceRx::left` lists them, form a chain from 0 to `L`. -/
theorem chain_leftImpl (L : Nat) : Chain L 0 (leftImpl L) := by
  have h := chain_tiles L ((L + 16384 - 1) / 16384) 0 rfl (Nat.zero_le _)
  simp only [Nat.zero_mul, Nat.zero_min, Nat.sub_zero] at h
  unfold leftImpl
  rw [PIECE_BLOCK_SIZE_val, leftBlocks_eq_tiles 16384 L (by decide), List.range_eq_range']
  exact h

theorem leftImpl_ne_nil (L : Nat) (hL : 0 < L) : leftImpl L ≠ [] := by
  intro h
  have := chain_leftImpl L
  rw [h] at this
  simp only [Chain] at this
  omega

/-- The first two requests of an assignment. -/
def firstRequests (i : Nat) (rem : List (Nat × Nat)) : List HOut :=
  (rem.take 2).map fun bl => HOut.write (.request i bl.1 bl.2)

/-- `new_piece_request`: a zeroed buffer, the first two blocks requested, the rest to come. -/
theorem newPieceRequest_rx (s : HState) (wi : Bool) (rd : ReqData) (content : Bytes) (hlen : content.length = rd.length) :
    newPieceRequest s wi rd =
      ({ s with pieceRx := some (rxOf rd.index rd.hash content 0 (leftImpl rd.length)) },
        (if wi then [HOut.write .interested] else []) ++ firstRequests rd.index (leftImpl rd.length)) := by
  have hpre : pre content 0 = List.replicate rd.length 0 := by simp [pre, hlen]
  unfold newPieceRequest newRx rxOf firstRequests
  rw [hpre]
  rcases hl : leftImpl rd.length with _ | ⟨⟨b0, l0⟩, _ | ⟨⟨b1, l1⟩, rest⟩⟩ <;> simp [sendRequest, hl]

/-! ### Part 2: task and manager in closed loop — one honest seeder completes the torrent -/

section Closed
open Rdest.Swarm.Loop Rdest.Props.C02

/-- The torrent and its content: piece `i` has `plen i > 0` bytes and the listed hash is the hash of those bytes. -/
structure Geo where
  T : Torrent
  content : Nat → Bytes
  np : Nat

def Geo.Ok (G : Geo) (sha1 : Bytes → Bytes) : Prop :=
  ∀ i, i < G.np → (G.content i).length = G.T.plen i ∧ 0 < G.T.plen i ∧ G.T.hashes.getD i [] = sha1 (G.content i)

/-- Executions of connection `a` in the closed-loop model (`LStepO`): manager and task step together. -/
inductive Steps (T : Torrent) (sha1 : Bytes → Bytes) (a : Nat) : MState × HState → MState × HState → Prop where
  | refl (x : MState × HState) : Steps T sha1 a x x
  | tail (x y : MState × HState) (m' : MState) (t' : HState) (d : Option (Bytes × Bytes)) (inp : HIn) (outs : List HOut) :
      Steps T sha1 a x y → LStepO T sha1 (diskOf d) a y.1 y.2 inp m' t' outs → Steps T sha1 a x (m', t')

theorem Steps.trans {T : Torrent} {sha1 : Bytes → Bytes} {a : Nat} {x y z : MState × HState}
    (h1 : Steps T sha1 a x y) (h2 : Steps T sha1 a y z) : Steps T sha1 a x z := by
  induction h2 with
  | refl => exact h1
  | tail y' m' t' d inp outs _ hl ih => exact Steps.tail _ _ m' t' d inp outs ih hl

theorem cmdsOf_nextRequest (i : Nat) (rest : List (Nat × Nat)) : cmdsOf (nextRequest i rest) = [] := by
  cases rest <;> simp [nextRequest, cmdsOf]

theorem cmdsOf_firstRequests (i : Nat) (rem : List (Nat × Nat)) : cmdsOf (firstRequests i rem) = [] := by
  rcases rem with _ | ⟨x, _ | ⟨y, r⟩⟩ <;> simp [firstRequests, cmdsOf]

/-- The session's only connection is `a`, piece `i` is assigned to it and not owned yet, the peer does not choke us, and
    the task is fetching `i` with the blocks `rem` outstanding from offset `p`. -/
structure Fetching (G : Geo) (sha1 : Bytes → Bytes) (a i p : Nat) (rem : List (Nat × Nat)) (m : MState) (t : HState) : Prop where
  idx : i < G.np
  len : m.statuses.length = G.np
  peer : ∃ pr, m.peers = [pr] ∧ pr.addr = a ∧ pr.pieceIndex = some i ∧ pr.choked = false
  alive : t.alive = true
  hs : t.hsDone = true
  rx : t.pieceRx = some (rxOf i (sha1 (G.content i)) (G.content i) p rem)
  chain : Chain (G.content i).length p rem
  ne : rem ≠ []

/-- The manager's side of `PieceDone` when the chooser names another piece. -/
theorem mstep_done_some (m : MState) (pr : MPeer) (a i c : Nat) (hp : m.peers = [pr]) (ha : pr.addr = a)
    (hi : pr.pieceIndex = some i) (hch : pr.choked = false) :
    mstep m (.pieceDone a (some c)) =
      .ok { statuses := modifyAt (modifyAt m.statuses i (fun _ => .have)) c incr,
            peers := [{ pr with rx := some c, pieceIndex := some c }] } (.request c false) := by
  subst ha
  simp [mstep, findPeer, hp, hi, handlePiece, hch, setPeer]

/-- ... and when nothing is left to ask this peer for. -/
theorem mstep_done_none (m : MState) (pr : MPeer) (a i : Nat) (hp : m.peers = [pr]) (ha : pr.addr = a)
    (hi : pr.pieceIndex = some i) :
    mstep m (.pieceDone a none) =
      .ok { statuses := modifyAt m.statuses i (fun _ => .have),
            peers := [{ pr with rx := none, pieceIndex := none, amInterested := false }] }
        (if pr.interested then .sendNotInterested else .prepareKill) := by
  subst ha
  simp [mstep, findPeer, hp, hi, handlePiece, setPeer]

/-- **One piece (closed loop, every chooser answer).** While the seeder answers in order, the joint execution reaches the
    point where the piece is stored and reported; the manager marks it owned and — if the chooser names another piece `c`
    of the torrent — the connection is fetching `c` from its first block. -/
theorem round_some (G : Geo) (sha1 : Bytes → Bytes) (hG : G.Ok sha1) (a i c : Nat) (hc : c < G.np)
    (rem : List (Nat × Nat)) (p : Nat) (m : MState) (t : HState) (hF : Fetching G sha1 a i p rem m t) :
    ∃ m' t', Steps G.T sha1 a (m, t) (m', t') ∧
      m'.statuses = modifyAt (modifyAt m.statuses i (fun _ => .have)) c incr ∧
      Fetching G sha1 a c 0 (leftImpl (G.T.plen c)) m' t' := by
  induction rem generalizing t p with
  | nil => exact absurd rfl hF.ne
  | cons bl rest ih =>
    obtain ⟨b, l⟩ := bl
    obtain ⟨pr, hp, hpa, hpi, hpc⟩ := hF.peer
    cases rest with
    | cons r1 rest' =>
      -- an intermediate block: only the task moves
      have hmid := step_mid sha1 (diskOf none) t i (sha1 (G.content i)) (G.content i) p b l r1 rest' .none hF.alive hF.hs hF.rx hF.chain
      have hc' : Chain (G.content i).length (p + l) (r1 :: rest') := hF.chain.2.2.2
      have hstep1 : LStepO G.T sha1 (diskOf none) a m t (.frame (.piece i b (honestBlock (G.content i) (b, l))) .none) m
          { t with keepAlive := 0, pieceRx := some (rxOf i (sha1 (G.content i)) (G.content i) (p + l) (r1 :: rest')) }
          (nextRequest i rest') :=
        ⟨none, m, hmid, by rw [cmdsOf_nextRequest]; exact rfl, rfl⟩
      have hF' : Fetching G sha1 a i (p + l) (r1 :: rest') m
          { t with keepAlive := 0, pieceRx := some (rxOf i (sha1 (G.content i)) (G.content i) (p + l) (r1 :: rest')) } :=
        ⟨hF.idx, hF.len, ⟨pr, hp, hpa, hpi, hpc⟩, hF.alive, hF.hs, rfl, hc', by simp⟩
      obtain ⟨m', t', hs, hst, hF''⟩ := ih (p + l) _ hF'
      exact ⟨m', t', Steps.trans (Steps.tail _ _ _ _ none _ _ (Steps.refl _) hstep1) hs, hst, hF''⟩
    | nil =>
      -- the last block: store, PieceDone, the manager's answer `request c`, the new assignment
      obtain ⟨hlenc, hposc, hhashc⟩ := hG c hc
      let rd : ReqData := { index := c, length := G.T.plen c, hash := G.T.hashes.getD c [] }
      have hm := mstep_done_some m pr a i c hp hpa hpi hpc
      have hnp := newPieceRequest_rx (base t) false rd (G.content c) hlenc
      have hlast := step_last sha1 (diskOf none) t i (G.content i) p b l (.req rd false) hF.alive hF.hs hF.rx hF.chain
      simp only [pieceFinishReply, hnp] at hlast
      let m1 : MState := { statuses := modifyAt (modifyAt m.statuses i (fun _ => .have)) c incr,
                           peers := [{ pr with rx := some c, pieceIndex := some c }] }
      have hcm : cmdsOf ([HOut.save (sha1 (G.content i)) (G.content i), HOut.cmd Cmd.pieceDone] ++
          ((if false = true then [HOut.write Msg.interested] else []) ++ firstRequests rd.index (leftImpl rd.length))) = [.pieceDone] := by
        have := cmdsOf_firstRequests c (leftImpl (G.T.plen c))
        simp [cmdsOf] at this ⊢
        exact this
      have hH : Handled G.T a m [.pieceDone] (.req rd false) m1 := ⟨some c, .request c false, hm, rfl⟩
      have hL := (⟨none, m1, hlast, by rw [hcm]; exact hH, rfl⟩ :
        LStepO G.T sha1 (diskOf none) a m t (.frame (.piece i b (honestBlock (G.content i) (b, l))) (.req rd false)) m1 _ _)
      refine ⟨m1, _, Steps.tail _ _ _ _ none _ _ (Steps.refl _) hL, rfl, ?_⟩
      refine ⟨hc, ?_, ⟨_, rfl, hpa, rfl, hpc⟩, hF.alive, hF.hs, ?_, ?_, leftImpl_ne_nil _ hposc⟩
      · simp [m1, modifyAt_length, hF.len]
      · show some (rxOf c (G.T.hashes.getD c []) (G.content c) 0 (leftImpl (G.T.plen c))) = _; rw [hhashc]
      · rw [hlenc]; exact chain_leftImpl _


/-- All blocks but the last: only the task moves, the manager's state stays. -/
theorem to_last (G : Geo) (sha1 : Bytes → Bytes) (a i : Nat)
    (rem : List (Nat × Nat)) (p : Nat) (m : MState) (t : HState) (hF : Fetching G sha1 a i p rem m t) :
    ∃ t' p' bl, Steps G.T sha1 a (m, t) (m, t') ∧ Fetching G sha1 a i p' [bl] m t' := by
  induction rem generalizing t p with
  | nil => exact absurd rfl hF.ne
  | cons bl rest ih =>
    obtain ⟨b, l⟩ := bl
    cases rest with
    | nil => exact ⟨t, p, (b, l), Steps.refl _, hF⟩
    | cons r1 rest' =>
      have hmid := step_mid sha1 (diskOf none) t i (sha1 (G.content i)) (G.content i) p b l r1 rest' .none hF.alive hF.hs hF.rx hF.chain
      have hc' : Chain (G.content i).length (p + l) (r1 :: rest') := hF.chain.2.2.2
      have hstep1 : LStepO G.T sha1 (diskOf none) a m t (.frame (.piece i b (honestBlock (G.content i) (b, l))) .none) m
          { t with keepAlive := 0, pieceRx := some (rxOf i (sha1 (G.content i)) (G.content i) (p + l) (r1 :: rest')) }
          (nextRequest i rest') :=
        ⟨none, m, hmid, by rw [cmdsOf_nextRequest]; exact rfl, rfl⟩
      have hF' : Fetching G sha1 a i (p + l) (r1 :: rest') m
          { t with keepAlive := 0, pieceRx := some (rxOf i (sha1 (G.content i)) (G.content i) (p + l) (r1 :: rest')) } :=
        ⟨hF.idx, hF.len, hF.peer, hF.alive, hF.hs, rfl, hc', by simp⟩
      obtain ⟨t', p', bl', hs, hF''⟩ := ih (p + l) _ hF'
      exact ⟨t', p', bl', Steps.trans (Steps.tail _ _ _ _ none _ _ (Steps.refl _) hstep1) hs, hF''⟩

/-- **The last piece.** When the chooser has nothing more to name, the joint execution still stores and reports the
    piece, and the manager marks it owned (the connection then says `NotInterested`, or ends if the peer wants nothing). -/
theorem round_none (G : Geo) (sha1 : Bytes → Bytes) (a i : Nat)
    (rem : List (Nat × Nat)) (p : Nat) (m : MState) (t : HState) (hF : Fetching G sha1 a i p rem m t) :
    ∃ m' t', Steps G.T sha1 a (m, t) (m', t') ∧ m'.statuses = modifyAt m.statuses i (fun _ => .have) := by
  obtain ⟨t1, p1, ⟨b, l⟩, hs1, hF1⟩ := to_last G sha1 a i rem p m t hF
  obtain ⟨pr, hp, hpa, hpi, hpc⟩ := hF1.peer
  have hm := mstep_done_none m pr a i hp hpa hpi
  let m1 : MState := { statuses := modifyAt m.statuses i (fun _ => .have),
                       peers := [{ pr with rx := none, pieceIndex := none, amInterested := false }] }
  cases hint : pr.interested with
  | true =>
    have hm' : mstep m (.pieceDone a none) = .ok m1 .sendNotInterested := by rw [hm]; simp [m1, hint]
    have hlast := step_last sha1 (diskOf none) t1 i (G.content i) p1 b l .sendNotInterested hF1.alive hF1.hs hF1.rx hF1.chain
    simp only [pieceFinishReply] at hlast
    have hH : Handled G.T a m [.pieceDone] .sendNotInterested m1 := ⟨none, .sendNotInterested, hm', rfl⟩
    have hcm : cmdsOf ([HOut.save (sha1 (G.content i)) (G.content i), HOut.cmd Cmd.pieceDone] ++ [HOut.write Msg.notInterested]) = [.pieceDone] := by
      simp [cmdsOf]
    have hL := (⟨none, m1, hlast, by rw [hcm]; exact hH, rfl⟩ :
      LStepO G.T sha1 (diskOf none) a m t1 (.frame (.piece i b (honestBlock (G.content i) (b, l))) .sendNotInterested) m1 _ _)
    exact ⟨m1, _, Steps.trans hs1 (Steps.tail _ _ _ _ none _ _ (Steps.refl _) hL), rfl⟩
  | false =>
    have hm' : mstep m (.pieceDone a none) = .ok m1 .prepareKill := by rw [hm]; simp [m1, hint]
    have hlast := step_last sha1 (diskOf none) t1 i (G.content i) p1 b l .prepareKill hF1.alive hF1.hs hF1.rx hF1.chain
    simp only [pieceFinishReply] at hlast
    have hH : Handled G.T a m [.pieceDone] .prepareKill m1 := ⟨none, .prepareKill, hm', rfl⟩
    have hcm : cmdsOf ([HOut.save (sha1 (G.content i)) (G.content i), HOut.cmd Cmd.pieceDone] ++ []) = [.pieceDone] := by
      simp [cmdsOf]
    have hL := (⟨some true, m1, hlast, by rw [hcm]; exact hH, rfl⟩ :
      LStepO G.T sha1 (diskOf none) a m t1 (.frame (.piece i b (honestBlock (G.content i) (b, l))) .prepareKill) _ _ _)
    refine ⟨_, _, Steps.trans hs1 (Steps.tail _ _ _ _ none _ _ (Steps.refl _) hL), ?_⟩
    subst hpa
    simp [afterEnd, m1, mstep, findPeer]

/-- What C13 guarantees about the chooser when the only peer has everything: a pick is a piece of the torrent that is not
    owned, and nothing is picked only when everything is owned. -/
def PickOk (pick : List Status → Option Nat) : Prop :=
  ∀ st, (∀ c, pick st = some c → c < st.length ∧ st[c]? ≠ some .have) ∧ (pick st = none → stillMissing st = 0)

/-- **Part 2 (C02 for one honest seeder, closed loop).** For every torrent geometry and content, every chooser that
    meets C13's guarantee, from the moment the first piece is assigned: the joint execution of connection task and manager,
    with the seeder answering every request in order with the real bytes, reaches a state in which every piece is owned. -/
theorem seeder_completes (G : Geo) (sha1 : Bytes → Bytes) (hG : G.Ok sha1) (pick : List Status → Option Nat)
    (hpick : PickOk pick) (a : Nat) (n : Nat) :
    ∀ (i : Nat) (m : MState) (t : HState), stillMissing m.statuses = n →
      Fetching G sha1 a i 0 (leftImpl (G.T.plen i)) m t → m.statuses[i]? ≠ some .have →
      ∃ m' t', Steps G.T sha1 a (m, t) (m', t') ∧ stillMissing m'.statuses = 0 ∧ m'.statuses.length = G.np := by
  induction n with
  | zero =>
    intro i m t hn hF hi
    -- nothing is missing, yet piece i is not owned: impossible
    have hall := (T3_complete_iff_zero m.statuses).mp hn
    have hlt : i < m.statuses.length := by rw [hF.len]; exact hF.idx
    have := hall _ (List.getElem_mem hlt)
    rw [List.getElem?_eq_getElem hlt, this] at hi
    exact absurd rfl hi
  | succ n ih =>
    intro i m t hn hF hi
    have hlt : i < m.statuses.length := by rw [hF.len]; exact hF.idx
    have hx : m.statuses[i]? = some m.statuses[i] := List.getElem?_eq_getElem hlt
    have hxne : m.statuses[i] ≠ .have := by intro h; rw [hx, h] at hi; exact hi rfl
    have hsm := sm_modifyAt_have m.statuses i _ hx hxne
    obtain ⟨hsome, hnone⟩ := hpick (modifyAt m.statuses i (fun _ => .have))
    cases hp : pick (modifyAt m.statuses i (fun _ => .have)) with
    | none =>
      obtain ⟨m', t', hs, hst⟩ := round_none G sha1 a i _ 0 m t hF
      exact ⟨m', t', hs, by rw [hst]; exact hnone hp, by rw [hst, modifyAt_length]; exact hF.len⟩
    | some c =>
      obtain ⟨hclt, hcne⟩ := hsome c hp
      rw [modifyAt_length, hF.len] at hclt
      obtain ⟨m1, t1, hs1, hst1, hF1⟩ := round_some G sha1 hG a i c hclt _ 0 m t hF
      have hn1 : stillMissing m1.statuses = n := by
        rw [hst1, sm_modifyAt_keeps _ c incr incr_keepsHave]; omega
      have hc1 : m1.statuses[c]? ≠ some .have := by
        rw [hst1, modifyAt_getElem?]
        simp only [if_true]
        intro h
        cases hq : (modifyAt m.statuses i fun _ => Status.have)[c]? with
        | none => rw [hq] at h; cases h
        | some y =>
          rw [hq] at h
          simp only [Option.map_some, Option.some.injEq] at h
          have : y = .have := (incr_keepsHave y).mp h
          rw [this] at hq; exact hcne hq
      obtain ⟨m', t', hs2, hz, hl⟩ := ih c m1 t1 hn1 hF1 hc1
      exact ⟨m', t', Steps.trans hs1 hs2, hz, hl⟩


/-! ### From a fresh connection, in the whole-client model -/

open Rdest.Props.C01 in
/-- Executions of one connection are executions of the whole client. -/
theorem steps_sys (T : Torrent) (sha1 : Bytes → Bytes) (a : Nat) (x y : MState × HState) (h : Steps T sha1 a x y)
    (S : Sys) (hS : SysReach T sha1 S) (hm : S.m = x.1) (ht : S.tasks a = x.2) :
    ∃ S', SysReach T sha1 S' ∧ S'.m = y.1 ∧ S'.tasks a = y.2 := by
  induction h with
  | refl => exact ⟨S, hS, hm, ht⟩
  | tail y' m' t' d inp outs _ hl ih =>
    obtain ⟨S1, hr1, hm1, ht1⟩ := ih
    rw [← hm1, ← ht1] at hl
    exact ⟨_, SysReach.step S1 _ hr1 (SysStep.own S1 a d inp m' t' outs hl), rfl, by simp [updateTask]⟩

/-- The start of the session with the seeder: it connects, shakes hands, sends a full bitfield and unchokes us; the chooser
    names the first piece. -/
theorem start_fetching (G : Geo) (sha1 : Bytes → Bytes) (hG : G.Ok sha1) (ih oid pid : Bytes) (c : Nat) (hc : c < G.np) :
    ∃ S, SysReach G.T sha1 S ∧ S.m.statuses = modifyAt (List.replicate G.np .missing) c incr ∧
      Fetching G sha1 0 c 0 (leftImpl (G.T.plen c)) S.m (S.tasks 0) := by
  obtain ⟨hlenc, hposc, hhashc⟩ := hG c hc
  let t0 : HState := { infoHash := ih, ownId := oid, piecesNum := G.np }
  let S0 : Sys := { m := { statuses := List.replicate G.np .missing, peers := [] },
                    tasks := fun _ => { t0 with alive := false }, stored := [] }
  have r0 : SysReach G.T sha1 S0 := SysReach.init G.np _ (fun _ => rfl)
  -- the connection
  let p0 : MPeer := { addr := 0, pieces := List.replicate G.np false }
  let m1 : MState := { statuses := List.replicate G.np .missing, peers := [p0] }
  have r1 : SysReach G.T sha1 { S0 with m := m1, tasks := updateTask S0.tasks 0 t0 } :=
    SysReach.step S0 _ r0 (SysStep.connect S0 0 t0 m1 rfl ⟨rfl, rfl, rfl⟩ (by simp [mstep, S0, m1, p0]))
  -- handshake (answered with our bitfield), the seeder's bitfield, its unchoke
  let bf : Bytes := List.replicate (bytesNumH G.np) 255
  let t1 : HState := { t0 with peerId := some pid, hsDone := true }
  have h1 : hstep sha1 (diskOf none) t0 (.frame (.handshake ih pid) (.bitfield [])) =
      some (t1, [.write (.handshake ih oid), .cmd (.init pid), .write (.bitfield [])], none) := by
    simp [hstep, handleFrame, kaAfter, isHandshake, dispatch, onHandshake, initHandshake, t0, t1]
  have x1 : Steps G.T sha1 0 (m1, t0) (m1, t1) :=
    Steps.tail _ _ _ _ none _ _ (Steps.refl _) ⟨none, m1, h1, by simp [cmdsOf, Handled], rfl⟩
  let p1 : MPeer := { p0 with pieces := List.replicate G.np true, amInterested := true }
  let m2 : MState := { m1 with peers := [p1] }
  have h2 : hstep sha1 (diskOf none) t1 (.frame (.bitfield bf) (.state false true)) =
      some (t1, [.cmd (.recvBitfield bf), .write .interested], none) := by
    simp [hstep, handleFrame, kaAfter, isHandshake, dispatch, onBitfield, t0, t1, bf]
  have x2 : Steps G.T sha1 0 (m1, t1) (m2, t1) := by
    refine Steps.tail _ _ _ _ none _ _ (Steps.refl _) ⟨none, m2, h2, ?_, rfl⟩
    have : cmdsOf [HOut.cmd (.recvBitfield bf), .write .interested] = [.recvBitfield bf] := by simp [cmdsOf]
    rw [this]
    exact ⟨List.replicate G.np true, some c, false, by simp [mstep, findPeer, setPeer, m1, m2, p0, p1], rfl⟩
  let rd : ReqData := { index := c, length := G.T.plen c, hash := G.T.hashes.getD c [] }
  let p2 : MPeer := { p1 with choked := false, pieceIndex := some c, rx := some c }
  let m3 : MState := { statuses := modifyAt (List.replicate G.np .missing) c incr, peers := [p2] }
  have hnp := newPieceRequest_rx
    (HState.mk ih oid G.np (some pid) true none none false false 0 [] true) false rd (G.content c) hlenc
  let t2 : HState := { t1 with choked := false, msgBuff := [], pieceRx := some (rxOf c rd.hash (G.content c) 0 (leftImpl rd.length)) }
  have h3 : hstep sha1 (diskOf none) t1 (.frame .unchoke (.req rd false)) =
      some (t2,
            [.cmd .recvUnchoke] ++ ((if false = true then [HOut.write Msg.interested] else []) ++ firstRequests c (leftImpl rd.length)), none) := by
    simp [hstep, handleFrame, kaAfter, isHandshake, dispatch, onUnchoke, t0, t1, t2, hnp]
    exact ⟨rfl, rfl⟩
  have x3 : Steps G.T sha1 0 (m2, t1) (m3, t2) := by
    refine Steps.tail _ _ _ _ none _ _ (Steps.refl _) ⟨none, m3, h3, ?_, rfl⟩
    have : cmdsOf ([HOut.cmd .recvUnchoke] ++ ((if false = true then [HOut.write Msg.interested] else []) ++
        firstRequests c (leftImpl rd.length))) = [.recvUnchoke] := by
      have := cmdsOf_firstRequests c (leftImpl rd.length)
      simp [cmdsOf] at this ⊢
      exact this
    rw [this]
    exact ⟨some c, .request c false, by simp [mstep, findPeer, setPeer, m1, m2, m3, p0, p1, p2], rfl⟩
  obtain ⟨S3, hr3, hm3, ht3⟩ := steps_sys G.T sha1 0 _ _ (Steps.trans (Steps.trans x1 x2) x3) _ r1 rfl (by simp [updateTask])
  refine ⟨S3, hr3, by rw [hm3], ?_⟩
  rw [hm3, ht3]
  refine ⟨hc, by simp [m3, modifyAt_length], ⟨p2, rfl, rfl, rfl, rfl⟩, rfl, rfl, ?_, ?_, leftImpl_ne_nil _ hposc⟩
  · show some (rxOf c (G.T.hashes.getD c []) (G.content c) 0 (leftImpl (G.T.plen c))) = _; rw [hhashc]
  · rw [hlenc]; exact chain_leftImpl _

open Rdest.Props.C01 in
/-- **C02, one honest seeder, whole client (every geometry, every content, every chooser meeting C13's guarantee).**
    There is an execution of the whole-client model — the seeder connects, offers everything, unchokes us and answers every
    request in order with the real bytes; the chooser's answers are `pick`'s — at whose end every piece is owned, and
    (C01.T6) for every piece a file named by its listed hash, holding data with exactly that hash, has been written. -/
theorem T7_seeder_download_completes (G : Geo) (sha1 : Bytes → Bytes) (hG : G.Ok sha1) (hnp : 0 < G.np)
    (pick : List Status → Option Nat) (hpick : PickOk pick) (ih oid pid : Bytes) :
    ∃ S, SysReach G.T sha1 S ∧ S.m.statuses.length = G.np ∧ (∀ x ∈ S.m.statuses, x = .have) ∧
      ∀ i, i < G.np → (i, G.T.hashes.getD i [], G.T.hashes.getD i []) ∈ S.stored := by
  -- the first pick
  obtain ⟨hsome, hnone⟩ := hpick (List.replicate G.np .missing)
  cases hp : pick (List.replicate G.np .missing) with
  | none =>
    have := hnone hp
    rw [sm_replicate_missing] at this
    omega
  | some c =>
    obtain ⟨hclt, _⟩ := hsome c hp
    rw [List.length_replicate] at hclt
    obtain ⟨S1, hr1, hst1, hF1⟩ := start_fetching G sha1 hG ih oid pid c hclt
    have hci : S1.m.statuses[c]? ≠ some .have := by
      rw [hst1, modifyAt_getElem?]
      simp [List.getElem?_replicate, hclt, incr]
    obtain ⟨m', t', hs, hz, hl⟩ := seeder_completes G sha1 hG pick hpick 0 _ c S1.m (S1.tasks 0) rfl hF1 hci
    obtain ⟨S2, hr2, hm2, _⟩ := steps_sys G.T sha1 0 _ _ hs S1 hr1 rfl rfl
    have hall := (T3_complete_iff_zero S2.m.statuses).mp (by rw [hm2]; exact hz)
    have hlen : S2.m.statuses.length = G.np := by rw [hm2]; exact hl
    exact ⟨S2, hr2, hlen, hall, fun i hi => T6_whole_client_owned_pieces_have_been_stored G.T sha1 S2 hr2 i (by
      have hlt : i < S2.m.statuses.length := by rw [hlen]; exact hi
      rw [List.getElem?_eq_getElem hlt, hall _ (List.getElem_mem hlt)])⟩


/-- A chooser that meets the guarantee: the first piece that is not owned (non-vacuity of `PickOk`). -/
def firstNotOwned (st : List Status) : Option Nat := st.findIdx? (· ≠ .have)

theorem pickOk_firstNotOwned : PickOk firstNotOwned := by
  intro st
  refine ⟨fun c hc => ?_, fun hn => ?_⟩
  · unfold firstNotOwned at hc
    obtain ⟨hlt, hp, _⟩ := List.findIdx?_eq_some_iff_getElem.mp hc
    refine ⟨hlt, ?_⟩
    rw [List.getElem?_eq_getElem hlt]
    intro h
    simp only [Option.some.injEq] at h
    simp [h] at hp
  · unfold firstNotOwned at hn
    rw [List.findIdx?_eq_none_iff] at hn
    apply (T3_complete_iff_zero st).mpr
    intro x hx
    have := hn x hx
    simpa using this

/-- Non-vacuity (test): a two-piece torrent meets `Geo.Ok`, so T7 applies to it with the chooser above. -/
example : ∃ S, SysReach ⟨[[0], [1]], fun _ => 1⟩ id S ∧ (∀ x ∈ S.m.statuses, x = .have) ∧ S.m.statuses.length = 2 := by
  have hG : Geo.Ok ⟨⟨[[0], [1]], fun _ => 1⟩, fun i => [i.toUInt8], 2⟩ id := by
    intro i hi
    have hi' : i < 2 := hi
    have : i = 0 ∨ i = 1 := by omega
    rcases this with rfl | rfl <;> exact ⟨rfl, by decide, rfl⟩
  obtain ⟨S, hr, hl, hall, _⟩ := T7_seeder_download_completes _ id hG (by decide) firstNotOwned pickOk_firstNotOwned [1] [2] [3]
  exact ⟨S, hr, hall, hl⟩

end Closed

end Rdest.Props.C02Run
