/-
  C09 for the whole client: every block of piece data that any connection task ever sends is a range of data whose hash
  is the one the torrent lists for that piece, of a piece the client owns.

  The whole-client model of C01 (`SysStep`: any number of tasks and the manager in closed loop) is extended by the disk:
  a ghost map from piece-file names to contents (what the tasks stored), the file a task loads being what was stored
  under that name; and by the manager's gate for `RecvRequest` (`Peer::handle_request`: `LoadAndSendPiece` only for an
  owned piece, with the hash the torrent lists for it — `load_only_if_unchoked_and_owned`, tied by the `mreq` lines).
-/
import RdestModel.Props.C09
import RdestModel.Props.C11
set_option linter.unusedSimpArgs false
set_option linter.unusedVariables false
namespace Rdest.Props.C09Whole
open Rdest Rdest.Wire Rdest.Gen Rdest.Swarm Rdest.Swarm.Loop Rdest.Props.C01 Rdest.Props.C09 Rdest.Props.C11 Rdest.Props.C12

/-! ### One step of a task: what is stored is verified, what is sent comes from the loaded piece -/

theorem mem_savesO_of (sha1 : Bytes → Bytes) (o : List HOut) (n d : Bytes) (h : HOut.save n d ∈ o) :
    (n, sha1 d, d.length) ∈ savesO sha1 o := by
  simp only [savesO, List.mem_filterMap]
  exact ⟨.save n d, h, rfl⟩

theorem step01c_saves (st : M01) (inp : TIn) (obs : List Obs) (e : Option Bool) (st' : M01)
    (h : step01c st inp obs e = some st') : ∀ x ∈ savedObs obs, x.2.1 = x.1 := by
  unfold step01c at h
  rcases hs : savedObs obs with _ | ⟨⟨n, dh, l⟩, _ | ⟨y, ys⟩⟩
  · intro x hx; cases hx
  · intro x hx
    simp only [List.mem_singleton] at hx; subst hx
    by_cases hd : dh = n
    · exact hd
    · have hdec : decide (st.want = some n ∧ dh = n) = false := decide_eq_false (fun c => hd c.2)
      simp only [hs, hdec, Bool.false_and, Bool.not_false, if_true] at h
      cases h
  · simp only [hs, Bool.false_and, Bool.not_false, if_true] at h
    cases h

/-- Whatever a task stores in one step hashes to the name it is stored under. -/
theorem saves_verified (sha1 : Bytes → Bytes) (d : Option (Bytes × Bytes)) (t : HState) (inp : HIn) (t' : HState)
    (outs : List HOut) (e : Option Bool) (h : hstep sha1 (diskOf d) t inp = some (t', outs, e)) :
    ∀ n dat, HOut.save n dat ∈ outs → sha1 dat = n := by
  cases hal : t.alive with
  | false =>
    simp only [hstep, hal, Bool.not_false, if_true, Option.some.injEq, Prod.mk.injEq] at h
    obtain ⟨_, rfl, _⟩ := h
    intro n dat hm; cases hm
  | true =>
    have hg : (!t.alive) = false := by simp [hal]
    have key : ∀ (ti : TIn), tstep sha1 t ti = some (t', outs, e) → ∀ n dat, HOut.save n dat ∈ outs → sha1 dat = n := by
      intro ti hts n dat hm
      obtain ⟨st', hacc, _⟩ := step01_sound sha1 { want := hashOf t, alive := t.alive } t ti t' outs e ⟨rfl, fun _ => rfl⟩ hts
      have hacc2 : step01c { want := hashOf t, alive := t.alive } ti (outs.filterMap (obsOf sha1)) e = some st' := by
        unfold step01 at hacc
        rw [if_neg (by simp [hal])] at hacc
        exact hacc
      have := step01c_saves _ _ _ _ _ hacc2 (n, sha1 dat, dat.length) (by rw [savedObs_obs]; exact mem_savesO_of sha1 outs n dat hm)
      exact this
    cases inp with
    | frame m rep => exact key (.frame m rep d) h
    | bcHave i rep =>
      refine key (.bcHave i rep) ?_
      simp only [tstep]
      simp only [hstep, hg, Bool.false_eq_true, if_false] at h ⊢
      exact h
    | eof => simp only [hstep, hg, Bool.false_eq_true, if_false, terminate, Option.some.injEq, Prod.mk.injEq] at h; obtain ⟨_, rfl, _⟩ := h; intro n dat hm; cases hm
    | recvErr => simp only [hstep, hg, Bool.false_eq_true, if_false, terminate, Option.some.injEq, Prod.mk.injEq] at h; obtain ⟨_, rfl, _⟩ := h; intro n dat hm; cases hm
    | start => simp only [hstep, hg, Bool.false_eq_true, if_false, Option.some.injEq, Prod.mk.injEq] at h; obtain ⟨_, rfl, _⟩ := h; intro n dat hm; cases hm
    | bcState en =>
      simp only [hstep, hg, Bool.false_eq_true, if_false] at h
      split at h <;> (simp only [Option.some.injEq, Prod.mk.injEq] at h; obtain ⟨_, rfl, _⟩ := h; intro n dat hm; simp at hm)
    | tick =>
      simp only [hstep, hg, Bool.false_eq_true, if_false] at h
      split at h <;> (simp only [terminate, Option.some.injEq, Prod.mk.injEq] at h; obtain ⟨_, rfl, _⟩ := h; intro n dat hm; simp at hm)

/-- What a loaded piece must be for a block taken from it to be the real thing. -/
def cacheAfter (st : M09) (inp : TIn) : List (Option (Nat × Bytes)) :=
  match inp with
  | .frame _ rep disk => [st.cache, loadedBy rep disk, none]
  | _ => [st.cache, none]

theorem uploadOk_piece (B : Nat) (cache : Option (Nat × Bytes)) (idx begin len : Nat) (pw : List Msg)
    (h : uploadOk B cache idx begin len pw = true) :
    ∀ m ∈ pw, ∃ blk data, m = .piece idx begin blk ∧ cache = some (idx, data) ∧ blk = (data.drop begin).take len := by
  unfold uploadOk at h
  rcases pw with _ | ⟨m, _ | ⟨m2, r⟩⟩
  · intro m hm; cases hm
  · cases m with
    | piece i b blk =>
      cases cache with
      | none => simp at h
      | some cd =>
        obtain ⟨ci, data⟩ := cd
        simp only [decide_eq_true_eq] at h
        obtain ⟨rfl, rfl, rfl, _, _, rfl⟩ := h
        intro m hm
        simp only [List.mem_singleton] at hm; subst hm
        exact ⟨_, data, rfl, rfl, rfl⟩
    | _ => simp at h
  · cases m <;> simp at h

/-- Acceptance by the upload monitor: every `Piece` written is a range of the piece loaded now or before, and the cache
    afterwards is the old one, the one loaded in this step, or empty. -/
theorem step09c_sub (B : Nat) (st : M09) (inp : TIn) (obs : List Obs) (e : Option Bool) (st' : M09)
    (h : step09c B st inp obs e = some st') :
    (∀ m ∈ pieceWrites obs, ∃ i b blk data, m = .piece i b blk ∧ some (i, data) ∈ cacheAfter st inp ∧
        blk = (data.drop b).take blk.length) ∧
    st'.cache ∈ cacheAfter st inp := by
  unfold step09c at h
  have empty : ∀ (x : M09) (c : Bool), (if (pieceWrites obs).isEmpty = true then some x else none) = some st' →
      (∀ m ∈ pieceWrites obs, ∃ i b blk data, m = Msg.piece i b blk ∧ some (i, data) ∈ cacheAfter st inp ∧
        blk = (data.drop b).take blk.length) ∧ st' = x := by
    intro x _ hq
    by_cases hp : (pieceWrites obs).isEmpty = true
    · simp only [hp, if_true, Option.some.injEq] at hq
      refine ⟨fun m hm => ?_, hq.symm⟩
      rw [List.isEmpty_iff.mp hp] at hm; cases hm
    · simp [hp] at hq
  cases inp with
  | frame m rep disk =>
    dsimp only at h
    cases hr : reqOf m with
    | none =>
      rw [hr] at h; dsimp only at h
      obtain ⟨h1, rfl⟩ := empty _ true h
      exact ⟨h1, by simp [cacheAfter]⟩
    | some req =>
      obtain ⟨idx, begin, len⟩ := req
      rw [hr] at h; dsimp only at h
      by_cases hu : uploadOk B (if consulted obs idx = true then loadedBy rep disk else st.cache) idx begin len (pieceWrites obs) = true
      · simp only [hu, if_true, Option.some.injEq] at h
        subst h
        have hmem : (if consulted obs idx = true then loadedBy rep disk else st.cache) ∈ cacheAfter st (.frame m rep disk) := by
          by_cases hc : consulted obs idx = true <;> simp [hc, cacheAfter]
        refine ⟨fun m' hm' => ?_, hmem⟩
        obtain ⟨blk, data, rfl, hcache, hblk⟩ := uploadOk_piece B _ idx begin len _ hu m' hm'
        refine ⟨idx, begin, blk, data, rfl, by rw [← hcache]; exact hmem, ?_⟩
        rw [hblk, List.length_take]
        rcases Nat.le_total len (data.drop begin).length with hle | hle
        · rw [Nat.min_eq_left hle]
        · rw [Nat.min_eq_right hle, List.take_of_length_le hle, List.take_of_length_le (Nat.le_refl _)]
      · simp [hu] at h
  | bcState en =>
    dsimp only at h
    obtain ⟨h1, rfl⟩ := empty _ true h
    refine ⟨h1, ?_⟩
    by_cases hw : wroteChoke obs = true <;> simp [hw, cacheAfter]
  | start rep => dsimp only at h; obtain ⟨h1, rfl⟩ := empty _ true h; exact ⟨h1, by simp [cacheAfter]⟩
  | recvErr => dsimp only at h; obtain ⟨h1, rfl⟩ := empty _ true h; exact ⟨h1, by simp [cacheAfter]⟩
  | eof => dsimp only at h; obtain ⟨h1, rfl⟩ := empty _ true h; exact ⟨h1, by simp [cacheAfter]⟩
  | bcHave i rep => dsimp only at h; obtain ⟨h1, rfl⟩ := empty _ true h; exact ⟨h1, by simp [cacheAfter]⟩
  | ticks k => dsimp only at h; obtain ⟨h1, rfl⟩ := empty _ true h; exact ⟨h1, by simp [cacheAfter]⟩

theorem mem_pieceWrites (sha1 : Bytes → Bytes) (outs : List HOut) (i b : Nat) (blk : Bytes)
    (h : HOut.write (.piece i b blk) ∈ outs) : Msg.piece i b blk ∈ pieceWrites (outs.filterMap (obsOf sha1)) := by
  simp only [pieceWrites, writes, List.mem_filter, List.mem_filterMap]
  exact ⟨⟨.write (.piece i b blk), ⟨.write (.piece i b blk), h, rfl⟩, rfl⟩, trivial⟩

/-- One step of a live task, any input: every block it sends is a range of the piece it had loaded or loads in this
    step; afterwards it has that piece loaded, or the one before, or none. -/
theorem upload_step (sha1 : Bytes → Bytes) (d : Option (Bytes × Bytes)) (t : HState) (inp : HIn) (t' : HState)
    (outs : List HOut) (e : Option Bool) (hal : t.alive = true) (h : hstep sha1 (diskOf d) t inp = some (t', outs, e)) :
    (∀ i b blk, HOut.write (.piece i b blk) ∈ outs → ∃ data,
        (t.pieceTx = some (i, data) ∨ loadedBy (repIn inp) d = some (i, data)) ∧ blk = (data.drop b).take blk.length) ∧
    (t'.alive = true → t'.pieceTx = t.pieceTx ∨ t'.pieceTx = none ∨ t'.pieceTx = loadedBy (repIn inp) d) := by
  have hg : (!t.alive) = false := by simp [hal]
  have key : ∀ (ti : TIn), tstep sha1 t ti = some (t', outs, e) →
      (∀ i b blk, HOut.write (.piece i b blk) ∈ outs → ∃ data,
        some (i, data) ∈ cacheAfter { cache := t.pieceTx, alive := true } ti ∧ blk = (data.drop b).take blk.length) ∧
      (t'.alive = true → t'.pieceTx ∈ cacheAfter { cache := t.pieceTx, alive := true } ti) := by
    intro ti hti
    obtain ⟨st', hacc, hR'⟩ := step09_sound sha1 { cache := t.pieceTx, alive := true } t ti t' outs e
      ⟨hal.symm, fun _ => rfl⟩ hti
    simp only [step09, Bool.not_true, Bool.false_eq_true, if_false] at hacc
    obtain ⟨h1, h2⟩ := step09c_sub _ _ _ _ _ _ hacc
    refine ⟨fun i b blk hm => ?_, fun ha' => ?_⟩
    · obtain ⟨i', b', blk', data, heq, hc, hb⟩ := h1 _ (mem_pieceWrites sha1 outs i b blk hm)
      cases heq
      exact ⟨data, hc, hb⟩
    · rw [← hR'.2 ha']; exact h2
  cases inp with
  | frame m rep =>
    obtain ⟨k1, k2⟩ := key (.frame m rep d) h
    refine ⟨fun i b blk hm => ?_, fun ha' => ?_⟩
    · obtain ⟨data, hc, hb⟩ := k1 i b blk hm
      simp only [cacheAfter, List.mem_cons, List.mem_singleton, List.not_mem_nil, or_false] at hc
      rcases hc with hc | hc | hc
      · exact ⟨data, Or.inl hc.symm, hb⟩
      · exact ⟨data, Or.inr hc.symm, hb⟩
      · cases hc
    · have := k2 ha'
      simp only [cacheAfter, List.mem_cons, List.mem_singleton, List.not_mem_nil, or_false] at this
      rcases this with hc | hc | hc
      · exact Or.inl hc
      · exact Or.inr (Or.inr hc)
      · exact Or.inr (Or.inl hc)
  | bcHave j rep =>
    have h' : tstep sha1 t (.bcHave j rep) = some (t', outs, e) := by
      simp only [tstep]
      simp only [hstep, hg, Bool.false_eq_true, if_false] at h ⊢
      exact h
    obtain ⟨k1, k2⟩ := key (.bcHave j rep) h'
    refine ⟨fun i b blk hm => ?_, fun ha' => ?_⟩
    · obtain ⟨data, hc, hb⟩ := k1 i b blk hm
      simp only [cacheAfter, List.mem_cons, List.mem_singleton, List.not_mem_nil, or_false] at hc
      rcases hc with hc | hc
      · exact ⟨data, Or.inl hc.symm, hb⟩
      · cases hc
    · have := k2 ha'
      simp only [cacheAfter, List.mem_cons, List.mem_singleton, List.not_mem_nil, or_false] at this
      rcases this with hc | hc
      · exact Or.inl hc
      · exact Or.inr (Or.inl hc)
  | eof =>
    simp only [hstep, hg, Bool.false_eq_true, if_false, terminate, Option.some.injEq, Prod.mk.injEq] at h
    obtain ⟨rfl, rfl, _⟩ := h
    exact ⟨fun i b blk hm => (by cases hm), fun ha' => (by simp at ha')⟩
  | recvErr =>
    simp only [hstep, hg, Bool.false_eq_true, if_false, terminate, Option.some.injEq, Prod.mk.injEq] at h
    obtain ⟨rfl, rfl, _⟩ := h
    exact ⟨fun i b blk hm => (by cases hm), fun ha' => (by simp at ha')⟩
  | start =>
    simp only [hstep, hg, Bool.false_eq_true, if_false, Option.some.injEq, Prod.mk.injEq] at h
    obtain ⟨rfl, rfl, _⟩ := h
    exact ⟨fun i b blk hm => (by cases hm), fun _ => Or.inl rfl⟩
  | bcState en =>
    simp only [hstep, hg, Bool.false_eq_true, if_false] at h
    split at h <;>
      (simp only [Option.some.injEq, Prod.mk.injEq] at h
       obtain ⟨rfl, rfl, _⟩ := h
       refine ⟨fun i b blk hm => (by simp at hm), fun _ => ?_⟩
       first | exact Or.inl rfl | exact Or.inr (Or.inl rfl))
  | tick =>
    simp only [hstep, hg, Bool.false_eq_true, if_false] at h
    split at h
    · simp only [terminate, Option.some.injEq, Prod.mk.injEq] at h
      obtain ⟨rfl, rfl, _⟩ := h
      exact ⟨fun i b blk hm => (by cases hm), fun ha' => (by simp at ha')⟩
    · simp only [Option.some.injEq, Prod.mk.injEq] at h
      obtain ⟨rfl, rfl, _⟩ := h
      exact ⟨fun i b blk hm => (by simp at hm), fun _ => Or.inl rfl⟩

/-! ### The whole client with its disk -/

structure SysD where
  S : Sys
  disk : List (Bytes × Bytes)              -- ghost: piece files as (name, content), newest first
  sent : List (Nat × Nat × Nat × Bytes)    -- ghost: every `Piece` frame written: (address, index, begin, block)

def lookup (disk : List (Bytes × Bytes)) (h : Bytes) : Option Bytes := (disk.find? (·.1 = h)).map (·.2)

def savesOf (outs : List HOut) : List (Bytes × Bytes) := outs.filterMap fun | .save n dd => some (n, dd) | _ => none

def pieceFrames (a : Nat) (outs : List HOut) : List (Nat × Nat × Nat × Bytes) :=
  outs.filterMap fun | .write (.piece i b blk) => some (a, i, b, blk) | _ => none

theorem lookup_mem (disk : List (Bytes × Bytes)) (h dat : Bytes) (hl : lookup disk h = some dat) : (h, dat) ∈ disk := by
  unfold lookup at hl
  cases hf : disk.find? (·.1 = h) with
  | none => rw [hf] at hl; cases hl
  | some x =>
    rw [hf] at hl
    simp only [Option.map_some, Option.some.injEq] at hl
    have hm := List.mem_of_find?_eq_some hf
    have hp : x.1 = h := by simpa using List.find?_some hf
    obtain ⟨x1, x2⟩ := x
    simp only at hl hp
    subst hl; subst hp
    exact hm

/-- A step of the whole client with the disk in the loop: a file a task loads holds what was last stored under that
    name; the manager answers `RecvRequest` with `LoadAndSendPiece` only for a piece it owns, with the hash the torrent
    lists for it; a new task has nothing loaded. -/
inductive StepD (T : Torrent) (sha1 : Bytes → Bytes) : SysD → SysD → Prop where
  | connect (X : SysD) (a : Nat) (t : HState) (m' : MState) :
      findPeer X.S.m a = none → FreshTask t → t.pieceTx = none → mstep X.S.m (.add a X.S.m.statuses.length) = .ok m' .none →
      StepD T sha1 X { X with S := { X.S with m := m', tasks := updateTask X.S.tasks a t } }
  | own (X : SysD) (a : Nat) (d : Option (Bytes × Bytes)) (inp : HIn) (m' : MState) (t' : HState) (outs : List HOut) :
      LStepO T sha1 (diskOf d) a X.S.m (X.S.tasks a) inp m' t' outs →
      (∀ h dat, d = some (h, dat) → lookup X.disk h = some dat) →
      (∀ li h, repIn inp = .load li h → X.S.m.statuses[li]? = some .have ∧ h = T.hashes.getD li []) →
      StepD T sha1 X
        { S := { m := m', tasks := updateTask X.S.tasks a t', stored := savedBy sha1 (X.S.tasks a) outs ++ X.S.stored },
          disk := savesOf outs ++ X.disk,
          sent := pieceFrames a outs ++ X.sent }

inductive ReachD (T : Torrent) (sha1 : Bytes → Bytes) : SysD → Prop where
  | init (n : Nat) (dead : Nat → HState) : (∀ a, (dead a).alive = false) →
      ReachD T sha1 { S := { m := { statuses := List.replicate n .missing, peers := [] }, tasks := dead, stored := [] },
                      disk := [], sent := [] }
  | step (X X' : SysD) : ReachD T sha1 X → StepD T sha1 X X' → ReachD T sha1 X'

/-- Data that may be sent as piece `i`: it hashes to what the torrent lists for `i`, and `i` is owned. -/
def Good (T : Torrent) (sha1 : Bytes → Bytes) (m : MState) (i : Nat) (data : Bytes) : Prop :=
  sha1 data = T.hashes.getD i [] ∧ m.statuses[i]? = some .have

structure InvD (T : Torrent) (sha1 : Bytes → Bytes) (X : SysD) : Prop where
  disk : ∀ nd ∈ X.disk, sha1 nd.2 = nd.1
  tx : ∀ a, (X.S.tasks a).alive = true → ∀ i data, (X.S.tasks a).pieceTx = some (i, data) → Good T sha1 X.S.m i data
  sent : ∀ x ∈ X.sent, ∃ data, Good T sha1 X.S.m x.2.1 data ∧ x.2.2.2 = (data.drop x.2.2.1).take x.2.2.2.length

/-- Owned pieces stay owned through a joint step. -/
theorem lstep_keeps_have (T : Torrent) (sha1 : Bytes → Bytes) (dk : Bytes → Option Bytes) (a : Nat) (m : MState) (t : HState)
    (inp : HIn) (m' : MState) (t' : HState) (outs : List HOut) (hl : LStepO T sha1 dk a m t inp m' t' outs) :
    ∀ i : Nat, m.statuses[i]? = some Status.have → m'.statuses[i]? = some Status.have := by
  obtain ⟨e, m1, _, hH, rfl⟩ := hl
  obtain ⟨_, hk2⟩ := afterEnd_keeps a e m1
  rcases handled_cases T a m m1 _ _ hH with rfl | ⟨ev, r, hm, _⟩
  · exact hk2
  · exact fun i hi => hk2 i (T1_have_absorbing _ _ _ _ hm i hi)

theorem invD_step (T : Torrent) (sha1 : Bytes → Bytes) (X X' : SysD) (hinv : InvD T sha1 X) (hs : StepD T sha1 X X') :
    InvD T sha1 X' := by
  cases hs with
  | connect a t m' hnone hfresh htx hadd =>
    simp only [mstep, Out.ok.injEq] at hadd
    obtain ⟨rfl, _⟩ := hadd
    refine ⟨hinv.disk, fun b hb i data hp => ?_, hinv.sent⟩
    simp only [updateTask] at hb hp
    by_cases hba : b = a
    · simp only [hba, if_true] at hp; rw [htx] at hp; cases hp
    · simp only [hba, if_false] at hb hp; exact hinv.tx b hb i data hp
  | own a d inp m' t' outs hl hdisk hgate =>
    have hkeep := lstep_keeps_have T sha1 _ a _ _ inp m' t' outs hl
    have good_keep : ∀ i data, Good T sha1 X.S.m i data → Good T sha1 m' i data :=
      fun i data hg => ⟨hg.1, hkeep i hg.2⟩
    obtain ⟨e, m1, hh, hH, hm'⟩ := hl
    -- a piece loaded in this step is good
    have loaded_good : ∀ i data, loadedBy (repIn inp) d = some (i, data) → Good T sha1 X.S.m i data := by
      intro i data hld
      cases hrep : repIn inp with
      | load li h =>
        cases hd : d with
        | none => simp [loadedBy, hrep, hd] at hld
        | some hd' =>
          obtain ⟨h', dat⟩ := hd'
          simp only [loadedBy, hrep, hd] at hld
          by_cases hheq : h = h'
          · simp only [hheq, if_true, Option.some.injEq, Prod.mk.injEq] at hld
            obtain ⟨rfl, rfl⟩ := hld
            obtain ⟨hown, hhash⟩ := hgate li h hrep
            have hmem := lookup_mem X.disk h' dat (hdisk h' dat hd)
            have := hinv.disk _ hmem
            simp only at this
            exact ⟨by rw [this, ← hheq, hhash], hown⟩
          · simp [hheq] at hld
      | _ => simp [loadedBy, hrep] at hld
    refine ⟨fun nd hnd => ?_, fun b hb i data hp => ?_, fun x hx => ?_⟩
    · simp only [List.mem_append] at hnd
      rcases hnd with hnew | hold
      · simp only [savesOf, List.mem_filterMap] at hnew
        obtain ⟨o, ho, hoe⟩ := hnew
        cases o with
        | save n dd => simp only [Option.some.injEq] at hoe; subst hoe; exact saves_verified sha1 d _ inp t' outs e hh n dd ho
        | write mm => cases hoe
        | cmd c => cases hoe
        | load hh' => cases hoe
      · exact hinv.disk nd hold
    · simp only [updateTask] at hb hp
      by_cases hba : b = a
      · simp only [hba, if_true] at hb hp
        cases hal : (X.S.tasks a).alive with
        | false =>
          simp only [hstep, hal, Bool.not_false, if_true, Option.some.injEq, Prod.mk.injEq] at hh
          obtain ⟨rfl, _, _⟩ := hh
          rw [hal] at hb; cases hb
        | true =>
          rcases (upload_step sha1 d _ inp t' outs e hal hh).2 hb with hc | hc | hc
          · rw [hc] at hp; exact good_keep i data (hinv.tx a hal i data hp)
          · rw [hc] at hp; cases hp
          · rw [hc] at hp; exact good_keep i data (loaded_good i data hp)
      · simp only [hba, if_false] at hb hp
        exact good_keep i data (hinv.tx b hb i data hp)
    · simp only [List.mem_append] at hx
      rcases hx with hnew | hold
      · simp only [pieceFrames, List.mem_filterMap] at hnew
        obtain ⟨o, ho, hoe⟩ := hnew
        cases hal : (X.S.tasks a).alive with
        | false =>
          simp only [hstep, hal, Bool.not_false, if_true, Option.some.injEq, Prod.mk.injEq] at hh
          obtain ⟨_, rfl, _⟩ := hh
          cases ho
        | true =>
          cases o with
          | write mm =>
            cases mm with
            | piece i b blk =>
              simp only [Option.some.injEq] at hoe; subst hoe
              obtain ⟨data, hsrc, hblk⟩ := (upload_step sha1 d _ inp t' outs e hal hh).1 i b blk ho
              rcases hsrc with hsrc | hsrc
              · exact ⟨data, good_keep i data (hinv.tx a hal i data hsrc), hblk⟩
              · exact ⟨data, good_keep i data (loaded_good i data hsrc), hblk⟩
            | _ => cases hoe
          | save n dd => cases hoe
          | cmd c => cases hoe
          | load hh' => cases hoe
      · obtain ⟨data, hg, hb⟩ := hinv.sent x hold
        exact ⟨data, good_keep _ data hg, hb⟩

theorem invD_reach (T : Torrent) (sha1 : Bytes → Bytes) (X : SysD) (h : ReachD T sha1 X) : InvD T sha1 X := by
  induction h with
  | init n dead hd =>
    exact ⟨fun _ h => (by cases h), fun a ha => (by rw [hd a] at ha; cases ha), fun _ h => (by cases h)⟩
  | step X X' _ hs ih => exact invD_step T sha1 X X' ih hs

/-- Forgetting the disk and the log gives an execution of the whole-client model of C01. -/
theorem reachD_reach (T : Torrent) (sha1 : Bytes → Bytes) (X : SysD) (h : ReachD T sha1 X) : SysReach T sha1 X.S := by
  induction h with
  | init n dead hd => exact SysReach.init n dead hd
  | step X X' _ hs ih =>
    cases hs with
    | connect a t m' h1 h2 _ h4 => exact SysReach.step _ _ ih (SysStep.connect X.S a t m' h1 h2 h4)
    | own a d inp m' t' outs hl _ _ => exact SysReach.step _ _ ih (SysStep.own X.S a d inp m' t' outs hl)

/-- **T5 (C09, the whole client).** Any number of connection tasks and the manager in closed loop, the disk between
    them, every input, interleaving and chooser outcome: every block of piece data `(index, begin, block)` that any task
    has ever sent, to any peer, is the range starting at `begin` of some data whose hash is the one the torrent lists for
    that piece — of a piece the client owns, for which (C01.T6) a verified piece file has been written. -/
theorem T5_whole_client_sends_only_verified_data (T : Torrent) (sha1 : Bytes → Bytes) (X : SysD)
    (h : ReachD T sha1 X) (a i b : Nat) (blk : Bytes) (hs : (a, i, b, blk) ∈ X.sent) :
    ∃ data, sha1 data = T.hashes.getD i [] ∧ blk = (data.drop b).take blk.length ∧
      X.S.m.statuses[i]? = some .have ∧ (i, T.hashes.getD i [], T.hashes.getD i []) ∈ X.S.stored := by
  obtain ⟨data, hg, hb⟩ := (invD_reach T sha1 X h).sent _ hs
  exact ⟨data, hg.1, hb, hg.2,
    T6_whole_client_owned_pieces_have_been_stored T sha1 X.S (reachD_reach T sha1 X h) i hg.2⟩

/-- Non-vacuity (test): a reachable state of the whole client in which a block has been sent — one connection downloads
    piece 0 (handshake, `Interested`, `Unchoke`, the block, `PieceDone`) and then asks for it back. -/
example : ∃ X, ReachD ⟨[[7]], fun _ => 1⟩ id X ∧ (0, 0, 0, [7]) ∈ X.sent := by
  let T : Torrent := ⟨[[7]], fun _ => 1⟩
  let t0 : HState := { infoHash := [1], ownId := [2], piecesNum := 1 }
  have nd : ∀ (X : SysD) (h dat : Bytes), (none : Option (Bytes × Bytes)) = some (h, dat) → lookup X.disk h = some dat :=
    fun _ _ _ h => by cases h
  have r0 : ReachD T id _ := ReachD.init 1 (fun _ => { t0 with alive := false }) (fun _ => rfl)
  have r1 := ReachD.step _ _ r0 (StepD.connect _ 0 t0 _ rfl ⟨rfl, rfl, rfl⟩ rfl rfl)
  have r2 := ReachD.step _ _ r1 (StepD.own _ 0 none (.frame (.handshake [1] [3]) (.bitfield [0])) _ _ _
    ⟨_, _, rfl, (by show _ = _; exact rfl), rfl⟩ (nd _) (fun li h hq => by cases hq))
  have r3 := ReachD.step _ _ r2 (StepD.own _ 0 none (.frame .interested .none) _ _ _
    ⟨_, _, rfl, (by show mstep _ _ = _; exact rfl), rfl⟩ (nd _) (fun li h hq => by cases hq))
  have r4 := ReachD.step _ _ r3 (StepD.own _ 0 none (.frame .unchoke (.req { index := 0, length := 1, hash := [7] } true)) _ _ _
    ⟨_, _, rfl, (by show ∃ chosen r, mstep _ _ = _ ∧ _ = _; exact ⟨some 0, _, rfl, rfl⟩), rfl⟩ (nd _) (fun li h hq => by cases hq))
  have r5 := ReachD.step _ _ r4 (StepD.own _ 0 none (.frame (.piece 0 0 [7]) .sendNotInterested) _ _ _
    ⟨_, _, rfl, (by show ∃ chosen r, mstep _ _ = _ ∧ _ = _; exact ⟨none, _, rfl, rfl⟩), rfl⟩ (nd _) (fun li h hq => by cases hq))
  have r6 := ReachD.step _ _ r5 (StepD.own _ 0 (some ([7], [7])) (.frame (.request 0 0 1) (.load 0 [7])) _ _ _
    ⟨_, _, rfl, (by show _ = _; exact rfl), rfl⟩ (fun h dat hq => by cases hq; rfl) (fun li h hq => by cases hq; exact ⟨rfl, rfl⟩))
  exact ⟨_, r6, by decide⟩

end Rdest.Props.C09Whole
