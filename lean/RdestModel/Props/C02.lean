/-
  C02 — an honest swarm leads to a complete, identical download.  *Partial by nature.*

  What is proved here, about the models of the other properties composed:
  * T1 (safety, unbounded): when every piece index holds a stored piece whose hash is the torrent's hash for that
    index (what C01 guarantees about the `*.piece` files) and the hash has no collision on those pieces, the files
    the extractor writes are exactly the slices of the original content — for every geometry (C03's theorem lifted
    from "the true pieces" to "any verified store").
  * T2 (no stuck piece, unbounded): in every reachable state of the manager model (any history of events of any
    number of peers, any random choices, C12's invariant), a piece that is not owned and is offered by a connected
    peer can always be driven to `Have` by at most two events of serving peers: if it is marked `Reserved`, the peer
    that was really asked for it exists, does not choke us, and completing its download lowers the number of missing
    pieces; if it is `Missing`, the chooser (every shuffle outcome, C13) answers the offering peer's `Unchoke` with a
    request for a piece we lack, and completing that lowers the number.
  * T3: the number of missing pieces never goes up.
  Together: from every reachable state the honest peers alone can always lower a measure that nobody can raise —
  there is no stuck reservation, lost assignment or dead state in the bookkeeping.  That the real tasks, sockets,
  timers and the OS scheduler take those steps (fairness, real-time behaviour) is *not* a theorem; it is observed by
  the end-to-end runs of the check (real `Session::run`, loopback tracker, scripted honest and disconnecting peers).
-/
import RdestModel.Props.C12
import RdestModel.Props.C13
import RdestModel.Props.C03
import RdestModel.Meta.Store
import RdestModel.Lemmas.Cand
set_option linter.unusedSimpArgs false
set_option linter.unusedVariables false
namespace Rdest.Props.C02
open Rdest Rdest.Swarm Rdest.Meta Rdest.Props.C12

/-! ## T1: byte-identical output from a verified store -/

/-- **T1 (C02).** `hash` is any function (SHA-1 in the code). If the store holds, at every index below the piece
    count, data with the torrent's hash for that index, the hash does not collide on those pieces, and there is
    nothing beyond the last piece, then extraction writes for every listed file exactly its slice of the original
    content: the download is byte-identical, however the content is cut into pieces and files. -/
theorem T1_verified_store_gives_identical_files (hash : Bytes → Bytes) (pl : Nat) (hpl : 0 < pl) (lens : List Nat)
    (content : Bytes) (n : Nat) (store : Nat → Bytes)
    (hverified : ∀ i, i < n → hash (store i) = hash (pieceOf pl content i))
    (hnocoll : ∀ i, i < n → ∀ d, hash d = hash (pieceOf pl content i) → d = pieceOf pl content i)
    (hbeyond : ∀ i, n ≤ i → store i = pieceOf pl content i) :
    extractS store pl lens = extractSpec lens content := by
  have hst : store = pieceOf pl content := by
    funext i
    by_cases hi : i < n
    · exact hnocoll i hi _ (hverified i hi)
    · exact hbeyond i (by omega)
  rw [hst, ← extractImpl_eq_extractS]
  exact C03.T2_extraction_is_the_content_slices pl hpl lens content

/-! ## The number of missing pieces -/

def keepsHave (f : Status → Status) : Prop := ∀ x, f x = .have ↔ x = .have

theorem incr_keepsHave : keepsHave incr := by
  intro x; cases x <;> simp [incr]

theorem decr_keepsHave : keepsHave decr := by
  intro x
  cases x with
  | missing => simp [decr]
  | «have» => simp [decr]
  | reserved n => simp only [decr]; split <;> simp

theorem sm_append (a b : List Status) : stillMissing (a ++ b) = stillMissing a + stillMissing b := by
  simp [stillMissing, List.filter_append]

theorem sm_cons (x : Status) (l : List Status) : stillMissing (x :: l) = (if x = .have then 0 else 1) + stillMissing l := by
  unfold stillMissing
  by_cases hx : x = .have
  · simp [hx]
  · simp [hx]; omega

theorem split_at (l : List Status) (i : Nat) (x : Status) (h : l[i]? = some x) :
    l = l.take i ++ x :: l.drop (i + 1) ∧ i < l.length := by
  have hlt : i < l.length := by
    cases Nat.lt_or_ge i l.length with
    | inl h' => exact h'
    | inr h' => rw [List.getElem?_eq_none h'] at h; cases h
  have hx : l[i] = x := by rw [List.getElem?_eq_getElem hlt] at h; exact Option.some.inj h
  refine ⟨?_, hlt⟩
  rw [← hx, ← List.drop_eq_getElem_cons hlt, List.take_append_drop]

theorem modifyAt_split (l : List Status) (i : Nat) (x : Status) (f : Status → Status) (h : l[i]? = some x) :
    modifyAt l i f = l.take i ++ f x :: l.drop (i + 1) := by
  obtain ⟨_, hlt⟩ := split_at l i x h
  unfold modifyAt
  rw [h]
  simp only []
  rw [List.set_eq_take_append_cons_drop]
  simp [hlt]

theorem sm_modifyAt_keeps (l : List Status) (i : Nat) (f : Status → Status) (hf : keepsHave f) :
    stillMissing (modifyAt l i f) = stillMissing l := by
  cases h : l[i]? with
  | none => unfold modifyAt; rw [h]
  | some x =>
    obtain ⟨hl, _⟩ := split_at l i x h
    rw [modifyAt_split l i x f h]
    conv => rhs; rw [hl]
    simp only [sm_append, sm_cons]
    have : (f x = .have) ↔ (x = .have) := hf x
    by_cases hx : x = .have
    · have e := this.mpr hx
      rw [if_pos e, if_pos hx]
    · have e : ¬ f x = .have := fun e => hx (this.mp e)
      rw [if_neg e, if_neg hx]

theorem sm_modifyAt_have (l : List Status) (i : Nat) (x : Status) (h : l[i]? = some x) (hx : x ≠ .have) :
    stillMissing (modifyAt l i (fun _ => .have)) + 1 = stillMissing l := by
  obtain ⟨hl, _⟩ := split_at l i x h
  rw [modifyAt_split l i x _ h]
  conv => rhs; rw [hl]
  simp only [sm_append, sm_cons, hx, if_false, if_true]
  omega

theorem sm_handlePiece (st : List Status) (p : MPeer) (chosen : Option Nat) :
    stillMissing (handlePiece st p chosen).1 = stillMissing st := by
  unfold handlePiece
  cases chosen with
  | none => rfl
  | some c =>
    simp only []
    split
    · rfl
    · exact sm_modifyAt_keeps st c incr incr_keepsHave

/-! ## T2: no stuck piece -/

theorem find_of_mem (ps : List MPeer) (hnd : (ps.map (·.addr)).Nodup) (p : MPeer) (hp : p ∈ ps) :
    ps.find? (fun x => decide (x.addr = p.addr)) = some p := by
  induction ps with
  | nil => cases hp
  | cons x xs ih =>
    simp only [List.map_cons, List.nodup_cons] at hnd
    simp only [List.find?_cons]
    rcases List.mem_cons.mp hp with rfl | hm
    · simp
    · have hne : x.addr ≠ p.addr := by
        intro e; exact hnd.1 (by rw [e]; exact List.mem_map.mpr ⟨p, hm, rfl⟩)
      simp only [hne, decide_false]
      exact ih hnd.2 hm

theorem findPeer_of_mem (s : MState) (hnd : (s.peers.map (·.addr)).Nodup) (p : MPeer) (hp : p ∈ s.peers) :
    findPeer s p.addr = some p := find_of_mem s.peers hnd p hp

/-- Completing the download a connection task is busy with (`rx = some y`, `y` not owned yet) lowers the number of
    missing pieces by one, whatever is chosen next. -/
theorem pieceDone_progress (s : MState) (a : Nat) (p : MPeer) (y : Nat) (x : Status) (hp : findPeer s a = some p)
    (hidx : p.pieceIndex = some y) (hst : s.statuses[y]? = some x) (hx : x ≠ .have) (chosen : Option Nat) :
    ∃ s' r, mstep s (.pieceDone a chosen) = .ok s' r ∧ stillMissing s'.statuses + 1 = stillMissing s.statuses := by
  refine ⟨_, _, by simp only [mstep, hp, hidx]; rfl, ?_⟩
  simp only [sm_handlePiece]
  exact sm_modifyAt_have s.statuses y x hst hx

/-- **T2a (C02).** A piece marked `Reserved` is never stuck: some connected peer that does not choke us was really
    asked for it, its task can report completion, and that lowers the number of missing pieces. -/
theorem T2_reserved_piece_can_complete (s : MState) (h : Reach s) (i n : Nat)
    (hs : s.statuses[i]? = some (.reserved n)) :
    ∃ a p, findPeer s a = some p ∧ p.choked = false ∧ p.rx = some i ∧
      ∀ chosen, Enabled s (.pieceDone a chosen) ∧
        ∃ s' r, mstep s (.pieceDone a chosen) = .ok s' r ∧ stillMissing s'.statuses + 1 = stillMissing s.statuses := by
  obtain ⟨_, p, hp, hc, hidx, hrx⟩ := T2_reserved_has_live_witness s h i n hs
  have hf := findPeer_of_mem s (reach_inv s h).nodup p hp
  refine ⟨p.addr, p, hf, hc, hrx, fun chosen => ⟨⟨p, i, hf, hrx⟩, ?_⟩⟩
  exact pieceDone_progress s p.addr p i (.reserved n) hf hidx hs (by simp) chosen

/-- **T2b (C02).** A `Missing` piece offered by a connected peer is never stuck either: for every outcome of the
    shuffle, the chooser answers that peer's `Unchoke` with a request for some piece we do not own, the task then
    holds that assignment, and completing it lowers the number of missing pieces. -/
theorem T2_missing_piece_gets_requested (s : MState) (h : Reach s) (a : Nat) (p : MPeer) (j : Nat)
    (hp : findPeer s a = some p) (hoff : hasPiece p.pieces j = true) (hj : s.statuses[j]? = some .missing)
    (shuffled : List (Nat × Nat)) (hperm : shuffled.Perm (rarestList s.statuses (s.peers.map (·.pieces)))) :
    ∃ c s1 wi, chooseImpl shuffled p.pieces = some c ∧
      mstep s (.unchoke a (some c)) = .ok s1 (.request c wi) ∧
      stillMissing s1.statuses = stillMissing s.statuses ∧
      ∀ chosen2, ∃ s2 r2, mstep s1 (.pieceDone a chosen2) = .ok s2 r2 ∧
        stillMissing s2.statuses + 1 = stillMissing s.statuses := by
  have hpm := (findPeer_some hp).1
  have hjlt : j < s.statuses.length := (C02.split_at s.statuses j .missing hj).2
  have hgetD : s.statuses.getD j .have = .missing := by rw [getD_eq, hj]; rfl
  -- `j` is eligible, so the chooser returns some eligible piece
  have helig : eligible s.statuses (s.peers.map (·.pieces)) p.pieces j := by
    refine ⟨hjlt, hoff, by rw [hgetD]; simp, fun _ => hgetD, ?_⟩
    exact C13.T3_count_positive _ _ j (List.mem_map.mpr ⟨p, hpm, rfl⟩) hoff
  cases hch : chooseImpl shuffled p.pieces with
  | none =>
    exact absurd ⟨j, helig⟩ ((C13.T2_none_iff_nothing_eligible s.statuses _ p.pieces shuffled hperm).mp hch)
  | some c =>
    obtain ⟨⟨hclt, _, hcne, _, _⟩, _⟩ := C13.T1_pick_is_rarest_eligible s.statuses _ p.pieces shuffled hperm c hch
    -- the Unchoke step
    let st0 : List Status := match p.choked, p.pieceIndex with
      | false, some old => modifyAt s.statuses old decr
      | _, _ => s.statuses
    have hsm0 : stillMissing st0 = stillMissing s.statuses := by
      simp only [st0]
      cases p.choked <;> cases p.pieceIndex <;> first | rfl | exact sm_modifyAt_keeps _ _ decr decr_keepsHave
    have hlen0 : st0.length = s.statuses.length := by
      simp only [st0]
      cases p.choked <;> cases p.pieceIndex <;> first | rfl | exact modifyAt_length _ _ _
    let q : MPeer := { p with choked := false, pieceIndex := some c, amInterested := true, rx := some c }
    let s1 : MState := { statuses := modifyAt st0 c incr, peers := setPeer s q }
    have hstep : mstep s (.unchoke a (some c)) = .ok s1 (.request c (!p.amInterested)) := by
      simp only [mstep, hp]; rfl
    have hsm1 : stillMissing s1.statuses = stillMissing s.statuses := by
      simp only [s1]; rw [sm_modifyAt_keeps _ _ incr incr_keepsHave, hsm0]
    refine ⟨c, s1, _, rfl, hstep, hsm1, fun chosen2 => ?_⟩
    -- after it the task holds piece `c`, which is still not owned
    have hq : findPeer s1 a = some q := findPeer_setPeer s _ a p q hp rfl
    have hc0 : ∃ x0, st0[c]? = some x0 ∧ x0 ≠ .have := by
      have hcs : ∃ xs, s.statuses[c]? = some xs ∧ xs ≠ .have := by
        have : c < s.statuses.length := hclt
        refine ⟨s.statuses[c], List.getElem?_eq_getElem this, ?_⟩
        intro e; apply hcne; rw [getD_eq, List.getElem?_eq_getElem this, e]; rfl
      obtain ⟨xs, hxs, hxne⟩ := hcs
      simp only [st0]
      cases p.choked <;> cases hpi : p.pieceIndex <;> try exact ⟨xs, hxs, hxne⟩
      rename_i old
      rw [modifyAt_getElem?]
      by_cases hco : c = old
      · subst hco; simp only [if_true, hxs, Option.map_some]
        exact ⟨decr xs, rfl, fun e => hxne ((decr_keepsHave xs).mp e)⟩
      · simp only [hco, if_false]; exact ⟨xs, hxs, hxne⟩
    obtain ⟨x0, hx0, hx0ne⟩ := hc0
    have hc1 : s1.statuses[c]? = some (incr x0) := by
      simp only [s1]; rw [modifyAt_getElem?]; simp [hx0]
    have hne1 : incr x0 ≠ .have := fun e => hx0ne ((incr_keepsHave x0).mp e)
    obtain ⟨s2, r2, hs2, hsm2⟩ := pieceDone_progress s1 a q c (incr x0) hq rfl hc1 hne1 chosen2
    exact ⟨s2, r2, hs2, by rw [← hsm1]; exact hsm2⟩

/-! ## T3: the number of missing pieces never goes up -/

theorem sm_le_of_step (s s' : MState) (ev : Ev) (r : Reply) (hstep : mstep s ev = .ok s' r) :
    stillMissing s'.statuses ≤ stillMissing s.statuses := by
  have hk : ∀ (st : List Status) (k : Nat), stillMissing (modifyAt st k decr) = stillMissing st :=
    fun st k => sm_modifyAt_keeps st k decr decr_keepsHave
  have hi : ∀ (st : List Status) (k : Nat), stillMissing (modifyAt st k incr) = stillMissing st :=
    fun st k => sm_modifyAt_keeps st k incr incr_keepsHave
  -- setting one entry to a constant changes the count by at most one; to `Have` never raises it
  have hto : ∀ (st : List Status) (k : Nat), stillMissing (modifyAt st k (fun _ => .have)) ≤ stillMissing st := by
    intro st k
    cases hx : st[k]? with
    | none => unfold modifyAt; rw [hx]; exact Nat.le_refl _
    | some x =>
      by_cases hxh : x = .have
      · have : modifyAt st k (fun _ => Status.have) = st := by
          rw [modifyAt_split st k x _ hx]
          conv => rhs; rw [(split_at st k x hx).1]
          rw [hxh]
        rw [this]; exact Nat.le_refl _
      · have := sm_modifyAt_have st k x hx hxh; omega
  cases ev with
  | add a n => simp only [mstep, Out.ok.injEq] at hstep; rw [← hstep.1]; exact Nat.le_refl _
  | choke a =>
    simp only [mstep] at hstep
    cases hp : findPeer s a with
    | none => simp [hp] at hstep
    | some p =>
      simp only [hp, Out.ok.injEq] at hstep; rw [← hstep.1]
      cases p.pieceIndex with
      | none => exact Nat.le_refl _
      | some k => simp only []; rw [hk]; exact Nat.le_refl _
  | unchoke a chosen =>
    simp only [mstep] at hstep
    cases hp : findPeer s a with
    | none => simp [hp] at hstep
    | some p =>
      have h0 : stillMissing (match p.choked, p.pieceIndex with
          | false, some old => modifyAt s.statuses old decr
          | _, _ => s.statuses) = stillMissing s.statuses := by
        cases p.choked <;> cases p.pieceIndex <;> first | rfl | exact hk _ _
      cases chosen with
      | none => simp only [hp, Out.ok.injEq] at hstep; rw [← hstep.1]; exact Nat.le_of_eq h0
      | some c => simp only [hp, Out.ok.injEq] at hstep; rw [← hstep.1]; simp only []; rw [hi]; exact Nat.le_of_eq h0
  | interested a =>
    simp only [mstep] at hstep
    cases hp : findPeer s a with
    | none => simp [hp] at hstep
    | some p => simp only [hp, Out.ok.injEq] at hstep; rw [← hstep.1]; exact Nat.le_refl _
  | notInterested a chosen =>
    simp only [mstep] at hstep
    cases hp : findPeer s a with
    | none => simp [hp] at hstep
    | some p => simp only [hp, Out.ok.injEq] at hstep; rw [← hstep.1]; exact Nat.le_refl _
  | bitfield a bits chosen =>
    simp only [mstep] at hstep
    cases hp : findPeer s a with
    | none => simp [hp] at hstep
    | some p =>
      simp only [hp] at hstep
      split at hstep
      · cases hstep
      · simp only [Out.ok.injEq] at hstep; rw [← hstep.1]; exact Nat.le_refl _
  | «have» a i chosen =>
    simp only [mstep] at hstep
    cases hp : findPeer s a with
    | none => simp [hp] at hstep
    | some p =>
      simp only [hp] at hstep
      split at hstep
      · cases hstep
      · cases chosen with
        | none => simp only [Out.ok.injEq] at hstep; rw [← hstep.1]; exact Nat.le_refl _
        | some c =>
          simp only at hstep
          split at hstep
          · split at hstep
            · simp only [Out.ok.injEq] at hstep; rw [← hstep.1]; simp only []; rw [hi]; exact Nat.le_refl _
            · simp only [Out.ok.injEq] at hstep; rw [← hstep.1]; exact Nat.le_refl _
          · simp only [Out.ok.injEq] at hstep; rw [← hstep.1]; exact Nat.le_refl _
  | pieceDone a chosen =>
    simp only [mstep] at hstep
    cases hp : findPeer s a with
    | none => simp [hp] at hstep
    | some p =>
      simp only [hp] at hstep
      cases hpi : p.pieceIndex with
      | none => simp [hpi] at hstep
      | some y =>
        simp only [hpi, Out.ok.injEq] at hstep; rw [← hstep.1]
        simp only [sm_handlePiece]; exact hto _ _
  | pieceCancel a chosen =>
    simp only [mstep] at hstep
    cases hp : findPeer s a with
    | none => simp [hp] at hstep
    | some p =>
      simp only [hp] at hstep
      cases hpi : p.pieceIndex with
      | none => simp [hpi] at hstep
      | some y =>
        simp only [hpi, Out.ok.injEq] at hstep; rw [← hstep.1]
        simp only [sm_handlePiece]; rw [hk]; exact Nat.le_refl _
  | kill a =>
    simp only [mstep] at hstep
    cases hp : findPeer s a with
    | none => simp only [hp, Out.ok.injEq] at hstep; rw [← hstep.1]; exact Nat.le_refl _
    | some p =>
      simp only [hp, Out.ok.injEq] at hstep; rw [← hstep.1]
      cases hpi : p.pieceIndex with
      | none => exact Nat.le_refl _
      | some k =>
        simp only []
        split
        · -- a not-owned piece is set to Missing: still not owned
          rename_i hne
          cases hx : s.statuses[k]? with
          | none => unfold modifyAt; rw [hx]; exact Nat.le_refl _
          | some x =>
            have hxne : x ≠ .have := by
              intro e; apply hne; rw [getD_eq, hx, e]; rfl
            rw [modifyAt_split s.statuses k x _ hx]
            conv => rhs; rw [(split_at s.statuses k x hx).1]
            simp only [sm_append, sm_cons, hxne]
            simp
        · exact Nat.le_refl _

/-- **T3 (C02).** No event of any peer, honest or not, raises the number of missing pieces. -/
theorem T3_missing_never_increases (s s' : MState) (ev : Ev) (r : Reply) (hstep : mstep s ev = .ok s' r) :
    stillMissing s'.statuses ≤ stillMissing s.statuses := sm_le_of_step s s' ev r hstep

/-- All owned ⇔ the measure is zero: the download is complete exactly when nothing is missing. -/
theorem T3_complete_iff_zero (st : List Status) : stillMissing st = 0 ↔ ∀ x ∈ st, x = .have := by
  unfold stillMissing
  rw [List.length_eq_zero_iff, List.filter_eq_nil_iff]
  simp

/-! ## T4: extraction starts exactly when the download is complete -/

/-- Only a stored piece changes the number of pieces not owned: every other event leaves it as it is. -/
theorem sm_eq_of_step (s s' : MState) (ev : Ev) (r : Reply) (hstep : mstep s ev = .ok s' r)
    (hnd : ∀ a c, ev ≠ .pieceDone a c) :
    stillMissing s'.statuses = stillMissing s.statuses := by
  have hk : ∀ (st : List Status) (k : Nat), stillMissing (modifyAt st k decr) = stillMissing st :=
    fun st k => sm_modifyAt_keeps st k decr decr_keepsHave
  have hi : ∀ (st : List Status) (k : Nat), stillMissing (modifyAt st k incr) = stillMissing st :=
    fun st k => sm_modifyAt_keeps st k incr incr_keepsHave
  cases ev with
  | add a n => simp only [mstep, Out.ok.injEq] at hstep; rw [← hstep.1]
  | choke a =>
    simp only [mstep] at hstep
    cases hp : findPeer s a with
    | none => simp [hp] at hstep
    | some p =>
      simp only [hp, Out.ok.injEq] at hstep; rw [← hstep.1]
      cases p.pieceIndex with
      | none => rfl
      | some k => simp only []; rw [hk]
  | unchoke a chosen =>
    simp only [mstep] at hstep
    cases hp : findPeer s a with
    | none => simp [hp] at hstep
    | some p =>
      have h0 : stillMissing (match p.choked, p.pieceIndex with
          | false, some old => modifyAt s.statuses old decr
          | _, _ => s.statuses) = stillMissing s.statuses := by
        cases p.choked <;> cases p.pieceIndex <;> first | rfl | exact hk _ _
      cases chosen with
      | none => simp only [hp, Out.ok.injEq] at hstep; rw [← hstep.1]; exact h0
      | some c => simp only [hp, Out.ok.injEq] at hstep; rw [← hstep.1]; simp only []; rw [hi]; exact h0
  | interested a =>
    simp only [mstep] at hstep
    cases hp : findPeer s a with
    | none => simp [hp] at hstep
    | some p => simp only [hp, Out.ok.injEq] at hstep; rw [← hstep.1]
  | notInterested a chosen =>
    simp only [mstep] at hstep
    cases hp : findPeer s a with
    | none => simp [hp] at hstep
    | some p => simp only [hp, Out.ok.injEq] at hstep; rw [← hstep.1]
  | bitfield a bits chosen =>
    simp only [mstep] at hstep
    cases hp : findPeer s a with
    | none => simp [hp] at hstep
    | some p =>
      simp only [hp] at hstep
      split at hstep
      · cases hstep
      · simp only [Out.ok.injEq] at hstep; rw [← hstep.1]
  | «have» a i chosen =>
    simp only [mstep] at hstep
    cases hp : findPeer s a with
    | none => simp [hp] at hstep
    | some p =>
      simp only [hp] at hstep
      split at hstep
      · cases hstep
      · cases chosen with
        | none => simp only [Out.ok.injEq] at hstep; rw [← hstep.1]
        | some c =>
          simp only at hstep
          split at hstep
          · split at hstep
            · simp only [Out.ok.injEq] at hstep; rw [← hstep.1]; simp only []; rw [hi]
            · simp only [Out.ok.injEq] at hstep; rw [← hstep.1]
          · simp only [Out.ok.injEq] at hstep; rw [← hstep.1]
  | pieceDone a chosen => exact absurd rfl (hnd a chosen)
  | pieceCancel a chosen =>
    simp only [mstep] at hstep
    cases hp : findPeer s a with
    | none => simp [hp] at hstep
    | some p =>
      simp only [hp] at hstep
      cases hpi : p.pieceIndex with
      | none => simp [hpi] at hstep
      | some y =>
        simp only [hpi, Out.ok.injEq] at hstep; rw [← hstep.1]
        simp only [sm_handlePiece]; rw [hk]
  | kill a =>
    simp only [mstep] at hstep
    cases hp : findPeer s a with
    | none => simp only [hp, Out.ok.injEq] at hstep; rw [← hstep.1]
    | some p =>
      simp only [hp, Out.ok.injEq] at hstep; rw [← hstep.1]
      cases hpi : p.pieceIndex with
      | none => rfl
      | some k =>
        simp only []
        split
        · -- a not-owned piece is set to Missing: still not owned
          rename_i hne
          cases hx : s.statuses[k]? with
          | none => unfold modifyAt; rw [hx]
          | some x =>
            have hxne : x ≠ .have := by
              intro e; apply hne; rw [getD_eq, hx, e]; rfl
            rw [modifyAt_split s.statuses k x _ hx]
            conv => rhs; rw [(split_at s.statuses k x hx).1]
            simp only [sm_append, sm_cons, hxne]
            simp
        · rfl


/-- States of the manager with its `files_extracted` flag, reachable (for a torrent with at least one piece) by
    events the connection tasks can emit. -/
inductive XReach (onKillOnly : Bool) : XState → Prop where
  | init (n : Nat) (hn : 0 < n) : XReach onKillOnly { m := { statuses := List.replicate n .missing, peers := [] } }
  | step (x x' : XState) (ev : Ev) (r : Reply) : XReach onKillOnly x → xstep onKillOnly x ev = some (x', r) → XReach onKillOnly x'

theorem sm_replicate_missing (n : Nat) : stillMissing (List.replicate n Status.missing) = n := by
  induction n with
  | zero => rfl
  | succ k ih => rw [List.replicate_succ, sm_cons, ih]; simp; omega

/-- **T4 (C02).** In every reachable manager state: extraction has been started if and only if every piece is
    owned — it never starts early, and it does not wait for a peer to disconnect. -/
theorem T4_extraction_started_iff_complete (x : XState) (h : XReach false x) :
    x.extracted = true ↔ stillMissing x.m.statuses = 0 := by
  induction h with
  | init n hn =>
    simp only [sm_replicate_missing]
    constructor
    · intro h; cases h
    · intro h; omega
  | step x x' ev r hx hstep ih =>
    unfold xstep at hstep
    cases hm : mstep x.m ev with
    | panic w => rw [hm] at hstep; cases hstep
    | ok s' r' =>
      rw [hm] at hstep
      simp only [Option.some.injEq, Prod.mk.injEq] at hstep
      obtain ⟨hx', _⟩ := hstep
      subst hx'
      simp only
      have hle := sm_le_of_step x.m s' ev r' hm
      constructor
      · intro hext
        simp only [Bool.or_eq_true, Bool.and_eq_true, decide_eq_true_eq] at hext
        rcases hext with h1 | ⟨_, h2⟩
        · have := ih.mp h1; omega
        · exact h2
      · intro hz
        simp only [Bool.or_eq_true, Bool.and_eq_true, decide_eq_true_eq]
        by_cases h0 : stillMissing x.m.statuses = 0
        · left; exact ih.mpr h0
        · right
          refine ⟨?_, hz⟩
          cases ev with
          | pieceDone a c => rfl
          | kill a => rfl
          | add a n => exact absurd (sm_eq_of_step x.m s' _ r' hm (fun _ _ h => by cases h)) (by omega)
          | choke a => exact absurd (sm_eq_of_step x.m s' _ r' hm (fun _ _ h => by cases h)) (by omega)
          | unchoke a c => exact absurd (sm_eq_of_step x.m s' _ r' hm (fun _ _ h => by cases h)) (by omega)
          | interested a => exact absurd (sm_eq_of_step x.m s' _ r' hm (fun _ _ h => by cases h)) (by omega)
          | notInterested a c => exact absurd (sm_eq_of_step x.m s' _ r' hm (fun _ _ h => by cases h)) (by omega)
          | «have» a i ch => exact absurd (sm_eq_of_step x.m s' _ r' hm (fun _ _ h => by cases h)) (by omega)
          | bitfield a b c => exact absurd (sm_eq_of_step x.m s' _ r' hm (fun _ _ h => by cases h)) (by omega)
          | pieceCancel a c => exact absurd (sm_eq_of_step x.m s' _ r' hm (fun _ _ h => by cases h)) (by omega)

/-- Running a list of events. -/
def xrun (onKillOnly : Bool) : XState → List Ev → Option XState
  | x, [] => some x
  | x, ev :: evs => match xstep onKillOnly x ev with
    | some (x', _) => xrun onKillOnly x' evs
    | none => none

theorem xreach_run (b : Bool) (x x' : XState) (evs : List Ev) (h : XReach b x) (hr : xrun b x evs = some x') :
    XReach b x' := by
  induction evs generalizing x with
  | nil => simp only [xrun, Option.some.injEq] at hr; subst hr; exact h
  | cons ev evs ih =>
    simp only [xrun] at hr
    cases hs : xstep b x ev with
    | none => rw [hs] at hr; cases hr
    | some p =>
      obtain ⟨x1, r⟩ := p
      rw [hs] at hr
      exact ih x1 (XReach.step x x1 ev r h hs) hr

/-- The history used as witness below: one peer connects, offers the only piece, unchokes, delivers it, and stays. -/
def stayingPeer : List Ev := [.add 0 1, .bitfield 0 [true] (some 0), .unchoke 0 (some 0), .pieceDone 0 none]

/-- The code as it was (extraction only looked for at a disconnect): everything is owned, extraction has not
    started, and no further event is due. -/
theorem old_complete_without_extraction :
    ∃ x, XReach true x ∧ stillMissing x.m.statuses = 0 ∧ x.extracted = false := by
  cases hx : xrun true { m := { statuses := List.replicate 1 .missing, peers := [] } } stayingPeer with
  | none => exact absurd hx (by decide)
  | some x =>
    refine ⟨x, xreach_run true _ x stayingPeer (XReach.init 1 (by decide)) hx, ?_, ?_⟩
    · have : (xrun true { m := { statuses := List.replicate 1 .missing, peers := [] } } stayingPeer).map
          (fun x => stillMissing x.m.statuses) = some 0 := by decide
      rw [hx] at this; simpa using this
    · have : (xrun true { m := { statuses := List.replicate 1 .missing, peers := [] } } stayingPeer).map
          (fun x => x.extracted) = some false := by decide
      rw [hx] at this; simpa using this

/-- Non-vacuity of T4: with the same history the repaired rule has started extraction. -/
example : (xrun false { m := { statuses := List.replicate 1 .missing, peers := [] } } stayingPeer).map
    (fun x => (x.extracted, stillMissing x.m.statuses)) = some (true, 0) := by decide

/-! ## T5: listed peers are not left out (connection bookkeeping, model `Swarm/Cand.lean`) -/

section Bookkeeping
open Rdest.Swarm.Book

theorem bkstep_known (guard : Bool) (c c' : CState) (e : CEv) (r : Reply) (hk : Known c)
    (h : bkstep guard c e = some (c', r)) : Known c' := by
  cases e with
  | trackerFail => simp only [bkstep, Option.some.injEq, Prod.mk.injEq] at h; rw [← h.1]; exact hk
  | trackerResp l =>
    simp only [bkstep, Option.some.injEq, Prod.mk.injEq] at h
    rw [← h.1]
    have h1 : Known { c with cands := c.cands ++ l, listed := c.listed ++ l } := by
      intro a ha
      simp only [List.mem_append] at ha
      rcases ha with ha | ha
      · rcases hk a ha with h | h | h
        · left; simp [h]
        · exact Or.inr (Or.inl h)
        · exact Or.inr (Or.inr h)
      · left; simp [ha]
    exact spawnN_known _ _ h1
  | peer ev =>
    simp only [bkstep] at h
    split at h
    · cases h
    · rename_i x' r' hx
      have h0 : Known { c with x := x' } := hk
      split at h
      · split at h
        · cases h; exact h0
        · split at h
          · cases h
            unfold spawnTracker
            split
            · exact h0
            · exact h0
          · cases h; exact spawnOne_known _ h0
      · split at h
        · cases h
          unfold tryNext
          split
          · exact h0
          · exact spawnOne_known _ h0
        · cases h; exact h0

/-- **T5a (C02, manager model).** In every reachable state — any history of peer commands, tracker replies and
    tracker failures — no address a tracker ever listed has been forgotten: it is still queued as a candidate, or a
    connection task was started for it, or it was dropped because a connection to that very address existed. -/
theorem T5_no_listed_peer_is_forgotten (guard : Bool) (np : Nat) (c : CState) (h : CReach guard np c) : Known c := by
  induction h with
  | init held => intro a ha; simp [cinit] at ha
  | step c c' e r _ hs ih => exact bkstep_known guard c c' e r ih hs

/-- **T5b (C02, manager model).** Whenever a connected peer runs dry (its reply says it has nothing (more) for us) or
    a connection ends, pieces are still missing and a candidate is queued, the manager takes the last candidate off
    the list and that address has a connection afterwards. -/
theorem T5_dry_peer_brings_the_next_candidate (guard : Bool) (c c' : CState) (ev : Ev) (r : Reply) (a : Nat)
    (h : bkstep guard c (.peer ev) = some (c', r)) (hdry : isKill ev = true ∨ nothingToGet ev r = true)
    (hmiss : c'.complete = false) (hlast : c.cands.getLast? = some a) :
    c'.cands = c.cands.dropLast ∧ connected c' a = true := by
  simp only [bkstep] at h
  split at h
  · cases h
  · rename_i x' r' hx
    have hne : ({ c with x := x' } : CState).cands.isEmpty = false := by
      cases hc : c.cands with
      | nil => rw [hc] at hlast; cases hlast
      | cons _ _ => rfl
    have hl1 : ({ c with x := x' } : CState).cands.getLast? = some a := hlast
    split at h
    · split at h
      · rename_i hcomp
        cases h; rw [hcomp] at hmiss; cases hmiss
      · rw [hne] at h
        simp only [Bool.false_eq_true, if_false, Option.some.injEq, Prod.mk.injEq] at h
        rw [← h.1]
        exact ⟨by simp, spawnOne_connects_last _ a hl1⟩
    · rename_i hnk
      rcases hdry with hd | hd
      · exact absurd hd hnk
      · split at h
        · cases h
          unfold tryNext at hmiss ⊢
          split at hmiss
          · rename_i hcomp; rw [hcomp] at hmiss; cases hmiss
          · rename_i hcomp
            simp only [hcomp]
            exact ⟨by simp, spawnOne_connects_last _ a hl1⟩
        · rename_i hn
          cases h
          exact absurd hd hn

/-- **T5c (C02, manager model).** A connection ends, pieces are missing and no candidate is left: the manager holds a
    tracker task afterwards (a new announce was started unless one was still running). -/
theorem T5_reannounce_when_no_candidate_is_left (guard : Bool) (c c' : CState) (a : Nat) (r : Reply)
    (h : bkstep guard c (.peer (.kill a)) = some (c', r)) (hmiss : c'.complete = false) (hc : c.cands = []) :
    c'.trackerHeld = true := by
  simp only [bkstep] at h
  split at h
  · cases h
  · rename_i x' r' hx
    simp only [isKill, if_true] at h
    split at h
    · rename_i hcomp; cases h; rw [hcomp] at hmiss; cases hmiss
    · simp only [hc, List.isEmpty_nil, if_true, Option.some.injEq, Prod.mk.injEq] at h
      rw [← h.1]
      unfold spawnTracker
      split
      · rename_i hg; simp at hg; exact hg.2
      · rfl

/-- A run of peer commands. -/
def runPeers (guard : Bool) : CState → List Ev → Option CState
  | c, [] => some c
  | c, ev :: evs =>
    match bkstep guard c (.peer ev) with
    | some (c', _) => runPeers guard c' evs
    | none => none

/-- Every command of the run is a lost connection or is answered "nothing (more) to get", and pieces are still
    missing after it. -/
def DryRun (guard : Bool) : CState → List Ev → Prop
  | _, [] => True
  | c, ev :: evs => ∃ c' r, bkstep guard c (.peer ev) = some (c', r) ∧
      (isKill ev = true ∨ nothingToGet ev r = true) ∧ c'.complete = false ∧ DryRun guard c' evs

theorem dry_step_cands (guard : Bool) (c c' : CState) (ev : Ev) (r : Reply)
    (h : bkstep guard c (.peer ev) = some (c', r)) (hdry : isKill ev = true ∨ nothingToGet ev r = true)
    (hmiss : c'.complete = false) : c'.cands = c.cands.dropLast := by
  cases hl : c.cands.getLast? with
  | some a => exact (T5_dry_peer_brings_the_next_candidate guard c c' ev r a h hdry hmiss hl).1
  | none =>
    have hnil : c.cands = [] := List.getLast?_eq_none_iff.mp hl
    have key : c.cands = c.cands.dropLast := by simp [hnil]
    simp only [bkstep] at h
    split at h
    · cases h
    · rename_i x' r' hx
      split at h
      · split at h
        · cases h; exact key
        · simp only [hnil, List.isEmpty_nil, if_true, Option.some.injEq, Prod.mk.injEq] at h
          rw [← h.1]
          unfold spawnTracker
          split <;> simp [hnil]
      · split at h
        · cases h
          unfold tryNext
          split
          · exact key
          · rw [spawnOne_cands]
        · cases h; exact key

/-- **T5d (C02, manager model).** However many candidates are queued: a run of `n` commands each of which is a lost
    connection or a peer running dry (pieces still missing) takes exactly the last `n` candidates off the list — so
    after as many such commands as there are candidates none is left waiting, and (T5a) each of them has had its
    connection task started or had a connection already. No listed peer is left out for ever behind peers that stay
    connected without anything for us. -/
theorem T5_every_candidate_gets_its_turn (guard : Bool) (c : CState) (evs : List Ev) (h : DryRun guard c evs) :
    ∃ c', runPeers guard c evs = some c' ∧ c'.cands = c.cands.take (c.cands.length - evs.length) := by
  induction evs generalizing c with
  | nil => exact ⟨c, rfl, by simp⟩
  | cons ev evs ih =>
    obtain ⟨c1, r, hs, hdry, hmiss, hrest⟩ := h
    obtain ⟨c', hrun, hc⟩ := ih c1 hrest
    refine ⟨c', by simp [runPeers, hs, hrun], ?_⟩
    rw [hc, dry_step_cands guard c c1 ev r hs hdry hmiss, List.dropLast_eq_take, List.take_take]
    congr 1
    simp only [List.length_take, List.length_cons]
    omega

theorem T5_no_candidate_left_waiting (guard : Bool) (c : CState) (evs : List Ev) (h : DryRun guard c evs)
    (hlen : c.cands.length ≤ evs.length) : ∃ c', runPeers guard c evs = some c' ∧ c'.cands = [] := by
  obtain ⟨c', h1, h2⟩ := T5_every_candidate_gets_its_turn guard c evs h
  refine ⟨c', h1, ?_⟩
  rw [h2]
  have : c.cands.length - evs.length = 0 := by omega
  simp [this]

/-- Non-vacuity (tests): twelve peers listed, eleven contacted at the reply, the twelfth when one of them runs dry. -/
example : ((bkstep true (cinit 1) (.trackerResp (List.range 12))).map fun p => (p.1.cands, p.1.contacted.length)) =
    some ([0], 11) := by decide
example :
    (((bkstep true (cinit 1) (.trackerResp (List.range 12))).bind fun p =>
        bkstep true p.1 (.peer (.bitfield 11 [false] none))).map fun p => (p.1.cands, p.1.contacted.length)) =
      some ([], 12) := by decide

end Bookkeeping

/-! ### Non-vacuity (tests) -/

example : Reach { statuses := List.replicate 3 .missing, peers := [] } := Reach.init 3
example : stillMissing [.missing, .reserved 1, .have] = 2 := by decide

end Rdest.Props.C02
