/-
  C20, "…and its peer state and reservation are released", for the whole client (closed loop of `Swarm/Loop`): after the
  closing tick of a silent connection the task is dead, the manager has no record of the connection, and the piece it
  was fetching is no longer `Reserved` unless another live connection, not choked by its peer, is fetching that very piece
  (end game). Composition of `T4_closing_tick_ends_the_task`, `ended_is_forgotten` and C12's whole-client theorem T8.
-/
import RdestModel.Props.C20
import RdestModel.Props.C12Whole
set_option linter.unusedSimpArgs false
set_option linter.unusedVariables false
namespace Rdest.Props.C20
open Rdest Rdest.Wire Rdest.Gen Rdest.Swarm Rdest.Swarm.Loop

/-- **T5 (whole client).** In every reachable state `S` of the whole client, when connection `a` — alive, silent for
    `KEEP_ALIVE_LIMIT` ticks — takes its next tick (whatever the other connections did in between), then in the resulting
    state the task has ended, the manager has forgotten the connection, and every piece that no *other* live, unchoked
    connection task is fetching is not `Reserved` — in particular the one `a` was fetching. -/
theorem T5_whole_client_silent_connection_is_released (T : Torrent) (sha1 : Bytes → Bytes) (S : Sys) (h : SysReach T sha1 S)
    (a : Nat) (d : Option (Bytes × Bytes)) (m' : MState) (t' : HState) (outs : List HOut)
    (hal : (S.tasks a).alive = true) (hlim : (S.tasks a).keepAlive = KEEP_ALIVE_LIMIT)
    (hl : LStepO T sha1 (diskOf d) a S.m (S.tasks a) .tick m' t' outs) :
    t'.alive = false ∧ findPeer m' a = none ∧
    ∀ i, (∀ b, b ≠ a → ¬ ((S.tasks b).alive = true ∧ (S.tasks b).choked = false ∧ (S.tasks b).pieceRx.map (·.index) = some i)) →
      ∀ n, m'.statuses[i]? ≠ some (.reserved n) := by
  have hdead : t'.alive = false := by
    obtain ⟨e, m1, hh, _, _⟩ := hl
    obtain ⟨t2, h2, hd2⟩ := T4_closing_tick_ends_the_task sha1 (diskOf d) (S.tasks a) hal hlim
    rw [h2] at hh
    simp only [Option.some.injEq, Prod.mk.injEq] at hh
    rw [← hh.1]; exact hd2
  refine ⟨hdead, ended_is_forgotten T sha1 _ a S.m m' (S.tasks a) t' .tick outs hal hl hdead, ?_⟩
  intro i hothers
  have hreach : SysReach T sha1 { m := m', tasks := updateTask S.tasks a t', stored := savedBy sha1 (S.tasks a) outs ++ S.stored } :=
    SysReach.step S _ h (SysStep.own S a d .tick m' t' outs hl)
  refine Rdest.Props.C12.T8_whole_client_no_stale_reservation T sha1 _ hreach i ?_
  intro b hb
  by_cases hba : b = a
  · subst hba
    simp only [updateTask, if_true] at hb
    rw [hdead] at hb; cases hb.1
  · simp only [updateTask, hba, if_false] at hb
    exact hothers b hba hb

/-- Non-vacuity (test): the premises are jointly satisfiable — a reachable state in which connection 0 is alive, at the
    keep-alive limit (how a silent task gets there tick by tick is `tickN_closed` / T1; here the connection starts at the
    limit so that the example does not depend on the value of the constant), and takes the tick. -/
example : ∃ (S : Sys) (m' : MState) (t' : HState) (outs : List HOut), SysReach ⟨[[7]], fun _ => 1⟩ id S ∧
    (S.tasks 0).alive = true ∧ (S.tasks 0).keepAlive = KEEP_ALIVE_LIMIT ∧
    LStepO ⟨[[7]], fun _ => 1⟩ id (diskOf none) 0 S.m (S.tasks 0) .tick m' t' outs := by
  let T : Torrent := ⟨[[7]], fun _ => 1⟩
  let t0 : HState := { infoHash := [1], ownId := [2], piecesNum := 1, keepAlive := KEEP_ALIVE_LIMIT }
  have r0 : SysReach T id _ := SysReach.init 1 (fun _ => { t0 with alive := false }) (fun _ => rfl)
  have r1 := SysReach.step _ _ r0 (SysStep.connect _ 0 t0 _ rfl ⟨rfl, rfl, rfl⟩ rfl)
  obtain ⟨t2, h2, _⟩ := T4_closing_tick_ends_the_task id (diskOf none) t0 rfl rfl
  exact ⟨_, _, t2, [], r1, rfl, rfl, ⟨some false, _, h2, (by show _ = _; exact rfl), rfl⟩⟩

end Rdest.Props.C20
