/-
  C04 — extraction never writes outside the download directory.

  Model: `RdestModel/Meta/Path.lean` — the output path of a file is the list of `Component::Normal` parts of the
  torrent's name (multi-file torrents only) followed by those of the file's path.
  Tie: the harness asks the real `Metainfo::file_piece_ranges` for the paths (compared component by component with
  `outputParts`) and runs the real extractor in a directory 24 levels below a scratch directory, listing everything
  that exists afterwards.
  Outside the model (trusted base): the operating system resolves a relative path without `.`/`..`/empty components
  and without symbolic links in the download directory to exactly the nested entries named by its components.
-/
import RdestModel.Meta.Path
set_option linter.unusedSimpArgs false
set_option linter.unusedVariables false
namespace Rdest.Props.C04
open Rdest Rdest.Meta

/-! ### Components -/

theorem splitSlash_ne_nil (p : Bytes) : splitSlash p ≠ [] := by
  cases p with
  | nil => simp [splitSlash]
  | cons b rest =>
    simp only [splitSlash]
    split
    · simp
    · split <;> simp

/-- No component produced by splitting at `/` contains a `/`. -/
theorem splitSlash_no_slash (p : Bytes) : ∀ c ∈ splitSlash p, slash ∉ c := by
  induction p with
  | nil => intro c hc; simp [splitSlash] at hc; subst hc; simp
  | cons b rest ih =>
    intro c hc
    simp only [splitSlash] at hc
    by_cases hb : b = slash
    · rw [if_pos hb] at hc
      rcases List.mem_cons.mp hc with h | h
      · subst h; simp
      · exact ih c h
    · rw [if_neg hb] at hc
      cases hr : splitSlash rest with
      | nil => exact absurd hr (splitSlash_ne_nil rest)
      | cons h t =>
        rw [hr] at hc ih
        rcases List.mem_cons.mp hc with h' | h'
        · subst h'
          intro hm
          rcases List.mem_cons.mp hm with h1 | h1
          · exact hb h1.symm
          · exact ih h (List.mem_cons_self) h1
        · exact ih c (List.mem_cons_of_mem _ h')

/-- Every part the code keeps is an ordinary name: not empty, not `.`, not `..`, and free of `/`. -/
theorem normalParts_spec (p : Bytes) :
    ∀ c ∈ normalParts p, c ≠ [] ∧ c ≠ [dot] ∧ c ≠ [dot, dot] ∧ slash ∉ c := by
  intro c hc
  simp only [normalParts, List.mem_filter] at hc
  obtain ⟨hm, hn⟩ := hc
  simp only [isNormal, Bool.and_eq_true, decide_eq_true_eq, bne_iff_ne, ne_eq] at hn
  exact ⟨by simpa using hn.1.1, by simpa using hn.1.2, by simpa using hn.2, splitSlash_no_slash p c hm⟩

def Plain (c : Bytes) : Prop := c ≠ [] ∧ c ≠ [dot] ∧ c ≠ [dot, dot] ∧ slash ∉ c

theorem outputParts_plain (multi : Bool) (name path : Bytes) : ∀ c ∈ outputParts multi name path, Plain c := by
  intro c hc
  simp only [outputParts, List.mem_append] at hc
  rcases hc with h | h
  · cases multi
    · simp at h
    · exact normalParts_spec name c (by simpa using h)
  · exact normalParts_spec path c h

/-! ### Walking a path of plain components only descends -/

theorem walk_plain (parts : List Bytes) (h : ∀ c ∈ parts, Plain c) (d : Nat) :
    walk parts d = some (d + parts.length) := by
  induction parts generalizing d with
  | nil => simp [walk]
  | cons c rest ih =>
    obtain ⟨h0, h1, h2, _⟩ := h c List.mem_cons_self
    simp only [walk]
    rw [if_neg h2, if_neg (by intro hh; rcases hh with hh | hh <;> contradiction)]
    rw [ih (fun c hc => h c (List.mem_cons_of_mem _ hc)) (d + 1)]
    simp only [List.length_cons]; congr 1; omega

/-- Walking never leaves the start directory at any intermediate point either: every prefix stays inside. -/
theorem walk_prefix_plain (parts : List Bytes) (h : ∀ c ∈ parts, Plain c) (k : Nat) :
    walk (parts.take k) 0 = some (parts.take k).length := by
  have := walk_plain (parts.take k) (fun c hc => h c (List.mem_of_mem_take hc)) 0
  simpa using this

/-- **T1 (C04).** For every name and every path in a torrent — absolute, with `..`, with empty components, in any
    nesting — the output path computed for the file stays inside the download directory, and so does each of the
    directories on the way (the ones `create_dir_all` creates). -/
theorem T1_output_stays_inside (multi : Bool) (name path : Bytes) :
    staysInside (outputParts multi name path) = true ∧
    ∀ k, staysInside ((outputParts multi name path).take k) = true := by
  have hp := outputParts_plain multi name path
  refine ⟨?_, fun k => ?_⟩
  · simp [staysInside, walk_plain _ hp 0]
  · simp only [staysInside]; rw [walk_prefix_plain _ hp k]; rfl

/-- **T2 (C04).** For a multi-file torrent every output path lies under the sub-directory named by the torrent
    (its sanitised name), and that sub-directory itself is inside the download directory. -/
theorem T2_multi_under_torrent_directory (name path : Bytes) :
    (outputParts true name path).take (normalParts name).length = normalParts name ∧
    staysInside (normalParts name) = true := by
  refine ⟨by simp [outputParts], ?_⟩
  have := walk_plain (normalParts name) (normalParts_spec name) 0
  simp [staysInside, this]

/-- **T3 (C04).** Nothing is followed: the result never contains a parent-directory, current-directory or empty
    component, whatever the torrent says (they are dropped — "neutralised"). -/
theorem T3_no_special_components (multi : Bool) (name path : Bytes) :
    [dot, dot] ∉ outputParts multi name path ∧ [dot] ∉ outputParts multi name path ∧ [] ∉ outputParts multi name path := by
  have hp := outputParts_plain multi name path
  exact ⟨fun h => (hp _ h).2.2.1 rfl, fun h => (hp _ h).2.1 rfl, fun h => (hp _ h).1 rfl⟩

/-! ### The string handed to the operating system -/

theorem splitSlash_cons_plain (b : UInt8) (rest : Bytes) (hb : b ≠ slash) :
    splitSlash (b :: rest) = ((b :: (splitSlash rest).headD []) :: (splitSlash rest).tail) := by
  simp only [splitSlash]
  rw [if_neg hb]
  cases hr : splitSlash rest with
  | nil => exact absurd hr (splitSlash_ne_nil rest)
  | cons h t => simp

theorem splitSlash_append_noslash (c : Bytes) (hc : slash ∉ c) (rest : Bytes) :
    splitSlash (c ++ slash :: rest) = c :: splitSlash rest := by
  induction c with
  | nil => simp [splitSlash]
  | cons b c ih =>
    have hb : b ≠ slash := fun h => hc (by simp [h])
    have hc' : slash ∉ c := fun h => hc (List.mem_cons_of_mem _ h)
    rw [List.cons_append, splitSlash_cons_plain b _ hb]
    simp [ih hc']

theorem splitSlash_noslash (c : Bytes) (hc : slash ∉ c) : splitSlash c = [c] := by
  induction c with
  | nil => simp [splitSlash]
  | cons b c ih =>
    have hb : b ≠ slash := fun h => hc (by simp [h])
    have hc' : slash ∉ c := fun h => hc (List.mem_cons_of_mem _ h)
    rw [splitSlash_cons_plain b _ hb]
    simp [ih hc']

/-- The path string built from the kept components reads back as exactly those components: the operating system
    sees no separator, root or special component that the model does not see. -/
theorem T4_joined_path_reads_back (parts : List Bytes) (hne : parts ≠ []) (h : ∀ c ∈ parts, slash ∉ c) :
    splitSlash (joinParts parts) = parts := by
  induction parts with
  | nil => exact absurd rfl hne
  | cons c rest ih =>
    cases rest with
    | nil => simp only [joinParts]; exact splitSlash_noslash c (h c List.mem_cons_self)
    | cons c2 rest2 =>
      simp only [joinParts]
      rw [splitSlash_append_noslash c (h c List.mem_cons_self)]
      rw [ih (by simp) (fun x hx => h x (List.mem_cons_of_mem _ hx))]

/-- In particular the joined path is relative: it does not begin with `/`. -/
theorem T4_joined_path_is_relative (multi : Bool) (name path : Bytes) :
    (joinParts (outputParts multi name path)).head? ≠ some slash := by
  have hp := outputParts_plain multi name path
  cases hparts : outputParts multi name path with
  | nil => simp [joinParts]
  | cons c rest =>
    rw [hparts] at hp
    obtain ⟨h0, _, _, hs⟩ := hp c List.mem_cons_self
    cases c with
    | nil => exact absurd rfl h0
    | cons b c' =>
      have hb : b ≠ slash := fun hh => hs (by simp [hh])
      cases rest <;> simp [joinParts, hb]

/-! ### Non-vacuity (tests) -/

-- "../../etc/./x//y" keeps etc, x, y
example : normalParts [46, 46, 47, 46, 46, 47, 101, 47, 46, 47, 120, 47, 47, 121] = [[101], [120], [121]] := by decide
-- "/a" keeps a; the unsanitised list would leave the directory
example : normalParts [47, 97] = [[97]] ∧ staysInside [[46, 46], [97]] = false := by decide
example : joinParts (outputParts true [47, 97] [46, 46, 47, 98]) = [97, 47, 98] := by decide

end Rdest.Props.C04
