/-
  C14 — upload slots are bounded and follow the choking policy.
  Everything is proved for an arbitrary slot limit `M` and optimistic limit `O`; `slot_constants` ties the
  limits of the source (generated constants) to the numbers in the property statement.
-/
import RdestModel.Swarm.Choke
import RdestModel.Lemmas.Trace
import RdestModel.Swarm.Stats
set_option linter.unusedSimpArgs false
namespace Rdest.Props.C14
open Rdest.Gen Rdest.Swarm

/-- "at most ten peers unchoked plus at most one optimistic unchoke": the bounds come from the source constants. -/
theorem slot_constants : MAX_UNCHOKED ≤ 10 ∧ MAX_OPTIMISTIC ≤ 1 := by decide

/-! ### Loop lemmas -/

def unchokedCount (l : List CPeer) : Nat := (l.filter (fun p => !p.amChoked)).length

theorem rotStep_addr (M : Nat) (newOpt : List Nat) (p : CPeer) (c : Nat) : (rotStep M newOpt p c).1.addr = p.addr := by
  unfold rotStep; repeat' split
  all_goals rfl

theorem rotStep_interested (M : Nat) (newOpt : List Nat) (p : CPeer) (c : Nat) :
    (rotStep M newOpt p c).1.interested = p.interested := by
  unfold rotStep; repeat' split
  all_goals rfl

theorem rotStep_optimistic (M : Nat) (newOpt : List Nat) (p : CPeer) (c : Nat) :
    (rotStep M newOpt p c).1.optimistic = p.optimistic := by
  unfold rotStep; repeat' split
  all_goals rfl

/-- Counter discipline of one loop iteration. -/
theorem rotStep_count (M : Nat) (newOpt : List Nat) (p : CPeer) (c : Nat) (hc : c ≤ M) :
    (rotStep M newOpt p c).2.1 ≤ M ∧
    (rotStep M newOpt p c).2.1 = c + (if (rotStep M newOpt p c).1.amChoked then 0 else 1) := by
  unfold rotStep
  cases h1 : p.amChoked <;> cases h2 : p.interested <;> cases h3 : newOpt.contains p.addr <;>
    by_cases h4 : c < M <;> simp [h1, h2, h3, h4] <;> omega

def clearOpt (newOpt : List Nat) (p : CPeer) : CPeer := if newOpt.isEmpty then p else { p with optimistic := false }

theorem clearOpt_amChoked (newOpt : List Nat) (p : CPeer) : (clearOpt newOpt p).amChoked = p.amChoked := by
  unfold clearOpt; split <;> rfl
theorem clearOpt_addr (newOpt : List Nat) (p : CPeer) : (clearOpt newOpt p).addr = p.addr := by
  unfold clearOpt; split <;> rfl
theorem clearOpt_interested (newOpt : List Nat) (p : CPeer) : (clearOpt newOpt p).interested = p.interested := by
  unfold clearOpt; split <;> rfl

theorem rotLoop_cons (M : Nat) (newOpt : List Nat) (p : CPeer) (ps : List CPeer) (c : Nat) :
    (rotLoop M newOpt (p :: ps) c).1 =
      clearOpt newOpt (rotStep M newOpt p c).1 :: (rotLoop M newOpt ps (rotStep M newOpt p c).2.1).1 := by
  simp [rotLoop, clearOpt]

theorem rotLoop_addrs (M : Nat) (newOpt : List Nat) (ps : List CPeer) (c : Nat) :
    (rotLoop M newOpt ps c).1.map (·.addr) = ps.map (·.addr) := by
  induction ps generalizing c with
  | nil => simp [rotLoop]
  | cons p ps ih => rw [rotLoop_cons]; simp [ih, clearOpt_addr, rotStep_addr]

/-- After the first loop the number of unchoked peers plus the initial counter is within the limit. -/
theorem rotLoop_unchoked (M : Nat) (newOpt : List Nat) (ps : List CPeer) (c : Nat) (hc : c ≤ M) :
    unchokedCount (rotLoop M newOpt ps c).1 + c ≤ M := by
  induction ps generalizing c with
  | nil => simpa [rotLoop, unchokedCount] using hc
  | cons p ps ih =>
    obtain ⟨h1, h2⟩ := rotStep_count M newOpt p c hc
    have ih' := ih (rotStep M newOpt p c).2.1 h1
    rw [rotLoop_cons]
    simp only [unchokedCount, ← List.countP_eq_length_filter, List.countP_cons, clearOpt_amChoked] at ih' ⊢
    cases hch : (rotStep M newOpt p c).1.amChoked
    · simp [hch] at h2 ⊢; omega
    · simp [hch] at h2 ⊢; omega

theorem rotLoop_clears (M : Nat) (newOpt : List Nat) (hne : newOpt ≠ []) (ps : List CPeer) (c : Nat) :
    ∀ q ∈ (rotLoop M newOpt ps c).1, q.optimistic = false := by
  induction ps generalizing c with
  | nil => simp [rotLoop]
  | cons p ps ih =>
    have he : newOpt.isEmpty = false := by cases newOpt <;> simp_all
    intro q hq
    rw [rotLoop_cons] at hq
    simp only [List.mem_cons] at hq
    rcases hq with rfl | hq
    · simp [clearOpt, he]
    · exact ih _ q hq

theorem rotLoop_keeps_optimistic (M : Nat) (ps : List CPeer) (c : Nat) :
    (rotLoop M [] ps c).1.map (·.optimistic) = ps.map (·.optimistic) := by
  induction ps generalizing c with
  | nil => simp [rotLoop]
  | cons p ps ih => rw [rotLoop_cons]; simp [ih, clearOpt, rotStep_optimistic]

/-! ### The invariant -/

def optimisticFlags (s : CState) : Nat := (s.filter (·.optimistic)).length

/-- Invariant of the manager state: slot bounds, and addresses are unique keys. -/
structure Inv (M O : Nat) (s : CState) : Prop where
  regular : unchokedNum s ≤ M
  flags : optimisticFlags s ≤ O
  nodup : (s.map (·.addr)).Nodup

theorem len_filter (l : List CPeer) (q : CPeer → Bool) : (l.filter q).length = l.countP q :=
  (List.countP_eq_length_filter ..).symm

theorem countP_le_of_imp (l : List CPeer) (q r : CPeer → Bool) (h : ∀ p ∈ l, q p = true → r p = true) :
    l.countP q ≤ l.countP r := List.countP_mono_left h

theorem countP_le_add (l : List CPeer) (q r t : CPeer → Bool) (h : ∀ p, q p = true → r p = true ∨ t p = true) :
    l.countP q ≤ l.countP r + l.countP t := by
  induction l with
  | nil => simp
  | cons x xs ih =>
    simp only [List.countP_cons]
    have := h x
    cases hq : q x <;> cases hr : r x <;> cases ht : t x <;> simp_all <;> omega

theorem countP_addr_le_one (s : CState) (a : Nat) (hnd : (s.map (·.addr)).Nodup) :
    s.countP (fun p => decide (p.addr = a)) ≤ 1 := by
  induction s with
  | nil => simp
  | cons p ps ih =>
    simp only [List.map_cons, List.nodup_cons] at hnd
    simp only [List.countP_cons]
    by_cases hp : p.addr = a
    · have : ps.countP (fun p => decide (p.addr = a)) = 0 := by
        rw [List.countP_eq_zero]
        intro q hq
        simp only [decide_eq_true_eq]
        intro e; apply hnd.1; rw [hp, ← e]; exact List.mem_map_of_mem hq
      simp [hp, this]
    · have := ih hnd.2; simp [hp]; exact this

theorem optimisticNum_le_flags (s : CState) : optimisticNum s ≤ optimisticFlags s := by
  unfold optimisticNum optimisticFlags
  rw [len_filter, len_filter]
  apply countP_le_of_imp
  intro p _ h; simp [CPeer.optimisticUnchoked] at h; exact h.2

theorem filter_length_updatePeer_le (s : CState) (a : Nat) (f : CPeer → CPeer) (q : CPeer → Bool)
    (h : ∀ p, q (f p) = true → q p = true) :
    ((updatePeer s a f).filter q).length ≤ (s.filter q).length := by
  unfold updatePeer
  rw [len_filter, len_filter, List.countP_map]
  apply countP_le_of_imp
  intro p _ hq
  simp only [Function.comp] at hq
  split at hq
  · exact h p hq
  · exact hq

theorem updatePeer_addrs (s : CState) (a : Nat) (f : CPeer → CPeer) (h : ∀ p, (f p).addr = p.addr) :
    (updatePeer s a f).map (·.addr) = s.map (·.addr) := by
  induction s with
  | nil => simp [updatePeer]
  | cons p ps ih =>
    simp only [updatePeer, List.map_cons] at ih ⊢
    rw [ih]; congr 1; split <;> simp [h]

theorem filter_filter_length_le (s : CState) (q r : CPeer → Bool) :
    ((s.filter r).filter q).length ≤ (s.filter q).length := by
  rw [len_filter, len_filter]
  exact List.Sublist.countP_le List.filter_sublist

/-- Un-choking one peer raises the regular count by at most one. -/
theorem unchokedNum_unchoke (s : CState) (a : Nat) (hnd : (s.map (·.addr)).Nodup) :
    unchokedNum (updatePeer s a (fun p => { p with amChoked := false })) ≤ unchokedNum s + 1 := by
  unfold unchokedNum updatePeer
  rw [len_filter, len_filter, List.countP_map]
  have h2 := countP_addr_le_one s a hnd
  refine Nat.le_trans (countP_le_add s _ CPeer.regularUnchoked (fun p => decide (p.addr = a)) ?_) (by omega)
  intro p hq
  simp only [Function.comp] at hq
  by_cases hp : p.addr = a
  · right; simp [hp]
  · left; simpa [hp] using hq

theorem inv_nil (M O : Nat) : Inv M O [] := ⟨by simp [unchokedNum], by simp [optimisticFlags], by simp⟩

theorem setOptimistic_addrs (newOpt : List Nat) (s : CState) :
    (setOptimistic newOpt s).map (·.addr) = s.map (·.addr) := by
  simp only [setOptimistic, List.map_map]
  apply List.map_congr_left
  intro p _; simp only [Function.comp]; split <;> rfl

/-- Peers whose address is in the list `l`, in a state with unique addresses: at most `|l|`. -/
theorem count_addr_mem_le (s : CState) (l : List Nat) (hs : (s.map (·.addr)).Nodup) :
    (s.filter (fun p => l.contains p.addr)).length ≤ l.length := by
  rw [len_filter]
  induction l with
  | nil => simp
  | cons a l ih =>
    have h1 := countP_le_add s (fun p => (a :: l).contains p.addr) (fun p => decide (p.addr = a)) (fun p => l.contains p.addr) (by
      intro p hp
      simp only [List.contains_cons, Bool.or_eq_true, beq_iff_eq] at hp
      rcases hp with hp | hp
      · left; simp [hp]
      · right; exact hp)
    have h2 := countP_addr_le_one s a hs
    simp only [List.length_cons]; omega

theorem regular_setOptimistic_le (newOpt : List Nat) (s : CState) :
    unchokedNum (setOptimistic newOpt s) ≤ unchokedCount s := by
  unfold unchokedNum unchokedCount setOptimistic
  rw [len_filter, len_filter, List.countP_map]
  apply countP_le_of_imp
  intro p _ h
  simp only [Function.comp] at h
  split at h
  · simp [CPeer.regularUnchoked] at h
  · simp [CPeer.regularUnchoked] at h; simp [h.1]

theorem flags_setOptimistic (newOpt : List Nat) (s : CState) (hclear : ∀ q ∈ s, q.optimistic = false) :
    optimisticFlags (setOptimistic newOpt s) = (s.filter (fun p => newOpt.contains p.addr)).length := by
  unfold optimisticFlags setOptimistic
  rw [len_filter, len_filter, List.countP_map]
  apply List.countP_congr
  intro p hp
  simp only [Function.comp]
  have := hclear p hp
  split <;> simp_all

theorem flags_perm {s t : CState} (h : s.Perm t) : optimisticFlags s = optimisticFlags t :=
  (h.filter _).length_eq

/-- **One step preserves the invariant** (for an admissible rotation; every other operation is unconstrained). -/
theorem step_inv (M O : Nat) (s : CState) (op : COp) (hinv : Inv M O s) (hadm : op.admissible O s) :
    Inv M O (cstepG M s op) := by
  obtain ⟨hreg, hfl, hnd⟩ := hinv
  cases op with
  | add a =>
    refine ⟨?_, ?_, ?_⟩
    · simp only [cstepG, unchokedNum, len_filter, List.countP_cons]
      have h1 : CPeer.regularUnchoked { addr := a } = false := rfl
      have h2 := List.Sublist.countP_le (p := CPeer.regularUnchoked) (List.filter_sublist (l := s) (p := fun p => decide (p.addr ≠ a)))
      simp only [unchokedNum, len_filter] at hreg
      simp only [h1, Bool.false_eq_true, if_false]; omega
    · simp only [cstepG, optimisticFlags, len_filter, List.countP_cons]
      have h2 := List.Sublist.countP_le (p := fun p : CPeer => p.optimistic) (List.filter_sublist (l := s) (p := fun p => decide (p.addr ≠ a)))
      simp only [optimisticFlags, len_filter] at hfl
      have h1 : ({ addr := a } : CPeer).optimistic = false := rfl
      simp only [h1, Bool.false_eq_true, if_false]; omega
    · simp only [cstepG, List.map_cons, List.nodup_cons]
      refine ⟨?_, List.Nodup.sublist (List.Sublist.map _ List.filter_sublist) hnd⟩
      intro h
      obtain ⟨p, hp, hpa⟩ := List.mem_map.mp h
      have := (List.mem_filter.mp hp).2
      simp at this; exact this hpa
  | kill a =>
    refine ⟨?_, ?_, ?_⟩
    · exact Nat.le_trans (filter_filter_length_le s _ _) hreg
    · exact Nat.le_trans (filter_filter_length_le s _ _) hfl
    · exact List.Nodup.sublist (List.Sublist.map _ List.filter_sublist) hnd
  | interested a =>
    refine ⟨?_, ?_, ?_⟩
    · exact Nat.le_trans (filter_length_updatePeer_le s a _ _ (fun p h => by simpa [CPeer.regularUnchoked] using h)) hreg
    · exact Nat.le_trans (filter_length_updatePeer_le s a _ _ (fun p h => by simpa using h)) hfl
    · have := updatePeer_addrs s a (fun p => { p with interested := true }) (fun _ => rfl)
      simp only [cstepG]; rw [this]; exact hnd
  | notInterested a =>
    refine ⟨?_, ?_, ?_⟩
    · exact Nat.le_trans (filter_length_updatePeer_le s a _ _ (fun p h => by simpa [CPeer.regularUnchoked] using h)) hreg
    · exact Nat.le_trans (filter_length_updatePeer_le s a _ _ (fun p h => by simpa using h)) hfl
    · have := updatePeer_addrs s a (fun p => { p with interested := false }) (fun _ => rfl)
      simp only [cstepG]; rw [this]; exact hnd
  | bitfield a =>
    have haddr : ((opBitfield M s a).map (·.addr)) = s.map (·.addr) := by
      unfold opBitfield; apply updatePeer_addrs; intro p; split <;> rfl
    refine ⟨?_, ?_, by simp only [cstepG]; rw [haddr]; exact hnd⟩
    · simp only [cstepG, opBitfield]
      by_cases hlt : unchokedNum s < M
      · have hf : (fun p : CPeer => if bitfieldUnchokes M s p = true then { p with amChoked := false } else p)
            = (fun p : CPeer => { p with amChoked := false }) := by
          funext p
          unfold bitfieldUnchokes
          cases hp : p.amChoked
          · simp [hlt, hp]; cases p; simp_all
          · simp [hlt, hp]
        rw [hf]
        have := unchokedNum_unchoke s a hnd; omega
      · have hf : (fun p : CPeer => if bitfieldUnchokes M s p = true then { p with amChoked := false } else p)
            = id := by
          funext p; unfold bitfieldUnchokes; simp [hlt]
        rw [hf]
        have : updatePeer s a id = s := by unfold updatePeer; apply List.map_id''; intro p; split <;> rfl
        rw [this]; exact hreg
    · simp only [cstepG, opBitfield]
      exact Nat.le_trans (filter_length_updatePeer_le s a _ _ (fun p h => by split at h <;> simpa using h)) hfl
  | rotate sorted newOpt =>
    obtain ⟨hperm, hnoNd, hnoLen, _⟩ := hadm
    have hsnd : (sorted.map (·.addr)).Nodup := (hperm.map _).nodup_iff.mpr hnd
    simp only [cstepG, rotate]
    have haddr : (setOptimistic newOpt (rotLoop M newOpt sorted 0).1).map (·.addr) = sorted.map (·.addr) := by
      rw [setOptimistic_addrs, rotLoop_addrs]
    refine ⟨?_, ?_, by rw [haddr]; exact hsnd⟩
    · have h1 := regular_setOptimistic_le newOpt (rotLoop M newOpt sorted 0).1
      have h2 := rotLoop_unchoked M newOpt sorted 0 (Nat.zero_le _)
      omega
    · by_cases hne : newOpt = []
      · subst hne
        have : setOptimistic [] (rotLoop M [] sorted 0).1 = (rotLoop M [] sorted 0).1 := by
          unfold setOptimistic; apply List.map_id''; intro p; simp
        rw [this]
        have hk := rotLoop_keeps_optimistic M sorted 0
        have : optimisticFlags (rotLoop M [] sorted 0).1 = optimisticFlags sorted := by
          unfold optimisticFlags
          have e : ∀ l : List CPeer, (l.filter (·.optimistic)).length = ((l.map (·.optimistic)).filter id).length := by
            intro l; induction l with
            | nil => simp
            | cons x xs ihx => simp only [List.filter_cons, List.map_cons, id]; cases x.optimistic <;> simp [ihx]
          rw [e, e, hk]
        rw [this, flags_perm hperm]; exact hfl
      · rw [flags_setOptimistic newOpt _ (rotLoop_clears M newOpt hne sorted 0)]
        have := count_addr_mem_le (rotLoop M newOpt sorted 0).1 newOpt (by rw [rotLoop_addrs]; exact hsnd)
        omega

/-- **T1.** In every state reachable by any history of bitfield arrivals, interest changes, connects,
    disconnects and (admissible) rotations, at most `M` peers are unchoked regularly and at most `O` optimistically. -/
theorem T1_slots_bounded (M O : Nat) (ops : List COp) (s : CState) (hinv : Inv M O s)
    (hrun : AdmissibleRun M O s ops) :
    unchokedNum (ops.foldl (cstepG M) s) ≤ M ∧ optimisticNum (ops.foldl (cstepG M) s) ≤ O := by
  induction ops generalizing s with
  | nil => exact ⟨hinv.regular, Nat.le_trans (optimisticNum_le_flags s) hinv.flags⟩
  | cons op ops ih =>
    simp only [List.foldl_cons]
    exact ih _ (step_inv M O s op hinv hrun.1) hrun.2

/-- T1 for the source's constants, from the empty session. -/
theorem T1_slots_bounded_impl (ops : List COp) (hrun : AdmissibleRun MAX_UNCHOKED MAX_OPTIMISTIC [] ops) :
    unchokedNum (ops.foldl cstep []) ≤ 10 ∧ optimisticNum (ops.foldl cstep []) ≤ 1 := by
  have h := T1_slots_bounded MAX_UNCHOKED MAX_OPTIMISTIC ops [] (inv_nil _ _) hrun
  have hc := slot_constants
  have e : ops.foldl cstep [] = ops.foldl (cstepG MAX_UNCHOKED) [] := rfl
  rw [e]; omega


/-! ### T2: what an executed rotation establishes -/

theorem rotStep_unchoked_interested (M : Nat) (newOpt : List Nat) (p : CPeer) (c : Nat)
    (h : (rotStep M newOpt p c).1.amChoked = false) : (rotStep M newOpt p c).1.interested = true := by
  unfold rotStep at h ⊢
  cases h1 : p.amChoked <;> cases h2 : p.interested <;> cases h3 : newOpt.contains p.addr <;>
    by_cases h4 : c < M <;> simp_all

/-- A peer that stays choked although it is interested and not the new optimistic one means the limit was reached. -/
theorem rotStep_choked_interested (M : Nat) (newOpt : List Nat) (p : CPeer) (c : Nat)
    (h1 : (rotStep M newOpt p c).1.amChoked = true) (h2 : p.interested = true) (h3 : newOpt.contains p.addr = false) :
    M ≤ (rotStep M newOpt p c).2.1 := by
  unfold rotStep at h1 ⊢
  by_cases h5 : c < M
  · have h3' : ¬ p.addr ∈ newOpt := by simpa using h3
    cases h4 : p.amChoked <;> simp [h2, h3, h3', h4, h5] at h1
  · cases h4 : p.amChoked <;> simp [h2, h3, h4, h5] <;> omega

theorem rotLoop_limit_all_choked (M : Nat) (newOpt : List Nat) (ps : List CPeer) (c : Nat) (hc : M ≤ c) :
    ∀ p ∈ (rotLoop M newOpt ps c).1, p.amChoked = true := by
  induction ps generalizing c with
  | nil => simp [rotLoop]
  | cons x xs ih =>
    have hnl : ¬ c < M := by omega
    have hstep : (rotStep M newOpt x c).1.amChoked = true ∧ (rotStep M newOpt x c).2.1 = c := by
      unfold rotStep; cases hx : x.amChoked <;> simp [hnl, hx]
    intro p hp
    rw [rotLoop_cons] at hp
    simp only [List.mem_cons] at hp
    rcases hp with rfl | hp
    · rw [clearOpt_amChoked]; exact hstep.1
    · exact ih _ (by rw [hstep.2]; exact hc) p hp

/-- The relation the rotation establishes between an earlier and a later peer of the sorted list. -/
def Later (rate : Nat → Nat) (newOpt : List Nat) (q p : CPeer) : Prop :=
  (q.interested = true ∧ q.amChoked = true ∧ newOpt.contains q.addr = false → p.amChoked = true) ∧
  rate p.addr ≤ rate q.addr

theorem rotLoop_later (M : Nat) (rate : Nat → Nat) (newOpt : List Nat) (ps : List CPeer) (c : Nat)
    (hsorted : ps.Pairwise (fun x y => rate y.addr ≤ rate x.addr)) :
    (rotLoop M newOpt ps c).1.Pairwise (Later rate newOpt) := by
  induction ps generalizing c with
  | nil => simp [rotLoop]
  | cons x xs ih =>
    simp only [List.pairwise_cons] at hsorted
    rw [rotLoop_cons, List.pairwise_cons]
    refine ⟨?_, ih _ hsorted.2⟩
    intro p hp
    have hpa : p.addr ∈ xs.map (·.addr) := by
      rw [← rotLoop_addrs M newOpt xs (rotStep M newOpt x c).2.1]; exact List.mem_map_of_mem hp
    obtain ⟨y, hy, hya⟩ := List.mem_map.mp hpa
    refine ⟨?_, ?_⟩
    · rintro ⟨hi, hc', hn⟩
      rw [clearOpt_interested, rotStep_interested] at hi
      rw [clearOpt_amChoked] at hc'
      rw [clearOpt_addr, rotStep_addr] at hn
      exact rotLoop_limit_all_choked M newOpt xs _ (rotStep_choked_interested M newOpt x c hc' hi hn) p hp
    · rw [clearOpt_addr, rotStep_addr, ← hya]; exact hsorted.1 y hy

theorem pairwise_mem_cases {α : Type} (R : α → α → Prop) (l : List α) (h : l.Pairwise R) (x y : α)
    (hx : x ∈ l) (hy : y ∈ l) : x = y ∨ R x y ∨ R y x := by
  induction l with
  | nil => simp at hx
  | cons a as ih =>
    simp only [List.pairwise_cons] at h
    simp only [List.mem_cons] at hx hy
    rcases hx with rfl | hx <;> rcases hy with rfl | hy
    · exact Or.inl rfl
    · exact Or.inr (Or.inl (h.1 y hy))
    · exact Or.inr (Or.inr (h.1 x hx))
    · exact ih h.2 hx hy

theorem mem_setOptimistic (newOpt : List Nat) (s : CState) (p : CPeer) (hp : p ∈ setOptimistic newOpt s)
    (hn : newOpt.contains p.addr = false) : p ∈ s := by
  unfold setOptimistic at hp
  obtain ⟨q, hq, rfl⟩ := List.mem_map.mp hp
  have haddr : (if newOpt.contains q.addr = true then ({ q with amChoked := false, optimistic := true } : CPeer) else q).addr = q.addr := by
    split <;> rfl
  rw [haddr] at hn
  simp only [hn, Bool.false_eq_true, if_false]; exact hq

/-- **T2.** After every executed rotation: (a) each regular slot belongs to a peer that declared interest;
    (b) no interested peer with a strictly better rate than a slot holder is left choked;
    (c) peers that are not interested are choked.  `sorted` is any descending-rate ordering (ties in any order). -/
theorem T2_rotation_postcondition (M : Nat) (rate : Nat → Nat) (sorted : List CPeer) (newOpt : List Nat)
    (hsorted : sorted.Pairwise (fun x y => rate y.addr ≤ rate x.addr))
    (hopt : ∀ p ∈ sorted, newOpt.contains p.addr = true → p.interested = true) :
    let after := (rotate M sorted newOpt).1
    (∀ p ∈ after, p.amChoked = false → newOpt.contains p.addr = false → p.interested = true) ∧
    (∀ q ∈ after, ∀ p ∈ after, q.interested = true → q.amChoked = true → newOpt.contains q.addr = false →
        p.amChoked = false → newOpt.contains p.addr = false → rate q.addr ≤ rate p.addr) ∧
    (∀ p ∈ after, p.interested = false → p.amChoked = true) := by
  intro after
  have hLa : ∀ p ∈ (rotLoop M newOpt sorted 0).1, p.amChoked = false → p.interested = true := by
    intro p hp hu
    suffices h : ∀ ps c, ∀ p ∈ (rotLoop M newOpt ps c).1, p.amChoked = false → p.interested = true from h sorted 0 p hp hu
    intro ps
    induction ps with
    | nil => intro c p hp; simp [rotLoop] at hp
    | cons x xs ih =>
      intro c p hp hu
      rw [rotLoop_cons] at hp
      simp only [List.mem_cons] at hp
      rcases hp with rfl | hp
      · rw [clearOpt_amChoked] at hu; rw [clearOpt_interested]; exact rotStep_unchoked_interested M newOpt x c hu
      · exact ih _ p hp hu
  refine ⟨?_, ?_, ?_⟩
  · intro p hp hu hn
    exact hLa p (mem_setOptimistic newOpt _ p hp hn) hu
  · intro q hq p hp hqi hqc hqn hpu hpn
    have hq' := mem_setOptimistic newOpt _ q hq hqn
    have hp' := mem_setOptimistic newOpt _ p hp hpn
    rcases pairwise_mem_cases _ _ (rotLoop_later M rate newOpt sorted 0 hsorted) q p hq' hp' with rfl | h | h
    · rw [hqc] at hpu; exact absurd hpu (by simp)
    · have := h.1 ⟨hqi, hqc, hqn⟩; rw [this] at hpu; exact absurd hpu (by simp)
    · exact h.2
  · intro p hp hni
    simp only [after, rotate, setOptimistic] at hp
    obtain ⟨q, hq, rfl⟩ := List.mem_map.mp hp
    by_cases hc : newOpt.contains q.addr = true
    · -- a new optimistic peer is interested by admissibility: contradiction
      simp only [hc, if_true] at hni
      have hqa : q.addr ∈ sorted.map (·.addr) := by
        rw [← rotLoop_addrs M newOpt sorted 0]; exact List.mem_map_of_mem hq
      obtain ⟨y, hy, hya⟩ := List.mem_map.mp hqa
      -- interested is preserved by the loop
      have hpres : ∀ ps c, ∀ q ∈ (rotLoop M newOpt ps c).1, ∃ y ∈ ps, y.addr = q.addr ∧ y.interested = q.interested := by
        intro ps
        induction ps with
        | nil => intro c q hq; simp [rotLoop] at hq
        | cons x xs ih =>
          intro c q hq
          rw [rotLoop_cons] at hq
          simp only [List.mem_cons] at hq
          rcases hq with rfl | hq
          · exact ⟨x, by simp, by rw [clearOpt_addr, rotStep_addr], by rw [clearOpt_interested, rotStep_interested]⟩
          · obtain ⟨y, hy, h1, h2⟩ := ih _ q hq; exact ⟨y, by simp [hy], h1, h2⟩
      obtain ⟨z, hz, hza, hzi⟩ := hpres sorted 0 q hq
      have := hopt z hz (by rw [hza]; exact hc)
      rw [hzi] at this; rw [this] at hni; exact absurd hni (by simp)
    · simp only [hc, if_false, Bool.false_eq_true] at hni ⊢
      cases hch : q.amChoked
      · have := hLa q hq hch; rw [this] at hni; exact absurd hni (by simp)
      · rfl

/-! ### T3: the broadcast `am_choked_map` is exactly the set of changes -/

/-- What a connection task must be told: `some b` if our choke flag towards it changed to `b`, else nothing. -/
def change (before after : CPeer) : Option Bool :=
  if before.amChoked ≠ after.amChoked then some after.amChoked else none

theorem rotStep_entry (M : Nat) (newOpt : List Nat) (p : CPeer) (c : Nat) :
    (rotStep M newOpt p c).2.2 = change p (rotStep M newOpt p c).1 := by
  unfold rotStep change
  cases h1 : p.amChoked <;> cases h2 : p.interested <;> cases h3 : newOpt.contains p.addr <;>
    by_cases h4 : c < M <;> simp [h1, h2, h3, h4]

theorem frameFor_nil (a : Nat) : frameFor [] a = none := rfl

theorem frameFor_cons (k : Nat) (b : Bool) (m : List (Nat × Bool)) (a : Nat) :
    frameFor ((k, b) :: m) a = if k = a then some b else frameFor m a := by
  unfold frameFor; simp only [List.find?_cons]
  by_cases h : k = a <;> simp [h]

theorem rotLoop_map_absent (M : Nat) (newOpt : List Nat) (ps : List CPeer) (c : Nat) (a : Nat)
    (ha : a ∉ ps.map (·.addr)) : frameFor (rotLoop M newOpt ps c).2 a = none := by
  induction ps generalizing c with
  | nil => simp [rotLoop, frameFor_nil]
  | cons x xs ih =>
    simp only [List.map_cons, List.mem_cons, not_or] at ha
    simp only [rotLoop]
    cases h : (rotStep M newOpt x c).2.2 with
    | none => simpa using ih _ ha.2
    | some b =>
      simp only [List.cons_append, List.nil_append, frameFor_cons]
      rw [if_neg (fun e => ha.1 e.symm)]; exact ih _ ha.2

theorem rotLoop_map_exact (M : Nat) (newOpt : List Nat) (ps : List CPeer) (c : Nat)
    (hnd : (ps.map (·.addr)).Nodup) :
    ∀ pr ∈ ps.zip (rotLoop M newOpt ps c).1, frameFor (rotLoop M newOpt ps c).2 pr.1.addr = change pr.1 pr.2 := by
  induction ps generalizing c with
  | nil => simp [rotLoop]
  | cons x xs ih =>
    simp only [List.map_cons, List.nodup_cons] at hnd
    intro pr hpr
    have hL : (rotLoop M newOpt (x :: xs) c).1 =
        clearOpt newOpt (rotStep M newOpt x c).1 :: (rotLoop M newOpt xs (rotStep M newOpt x c).2.1).1 := rotLoop_cons ..
    have hm : (rotLoop M newOpt (x :: xs) c).2 =
        (match (rotStep M newOpt x c).2.2 with | some b => [(x.addr, b)] | none => []) ++
          (rotLoop M newOpt xs (rotStep M newOpt x c).2.1).2 := rfl
    rw [hL, List.zip_cons_cons, List.mem_cons] at hpr
    rw [hm]
    have hent := rotStep_entry M newOpt x c
    have hchg : ∀ q : CPeer, change x (clearOpt newOpt q) = change x q := by
      intro q; unfold change; rw [clearOpt_amChoked]
    rcases hpr with rfl | hpr
    · simp only [hchg]
      cases h : (rotStep M newOpt x c).2.2 with
      | none =>
        rw [h] at hent
        simp only [List.nil_append]
        rw [rotLoop_map_absent M newOpt xs _ x.addr hnd.1]; exact hent
      | some b =>
        rw [h] at hent
        simp only [List.cons_append, List.nil_append, frameFor_cons, if_true]; exact hent
    · have hne : x.addr ≠ pr.1.addr := by
        intro e; apply hnd.1; rw [e]
        exact List.mem_map_of_mem (List.of_mem_zip hpr).1
      cases h : (rotStep M newOpt x c).2.2 with
      | none => simpa using ih _ hnd.2 pr hpr
      | some b =>
        simp only [List.cons_append, List.nil_append, frameFor_cons, if_neg hne]
        exact ih _ hnd.2 pr hpr

theorem frameFor_filter_ne (m : List (Nat × Bool)) (a k : Nat) (h : k ≠ a) :
    frameFor (m.filter (·.1 ≠ k)) a = frameFor m a := by
  induction m with
  | nil => rfl
  | cons e es ih =>
    obtain ⟨k', b⟩ := e
    by_cases hk : k' = k
    · have : k' ≠ a := by rw [hk]; exact h
      simp only [List.filter_cons, hk, ne_eq, not_true_eq_false, decide_false, Bool.false_eq_true, if_false]
      rw [ih, ← hk, frameFor_cons, if_neg this]
    · simp only [List.filter_cons, ne_eq, hk, not_false_eq_true, decide_true, if_true, frameFor_cons, ih]

theorem frameFor_foldl_insert (newOpt : List Nat) (m : List (Nat × Bool)) (a : Nat) :
    frameFor (newOpt.foldl (fun m a => mapInsert m a false) m) a =
      if newOpt.contains a then some false else frameFor m a := by
  induction newOpt generalizing m with
  | nil => simp
  | cons k ks ih =>
    simp only [List.foldl_cons, ih, List.contains_cons]
    by_cases hk : a = k
    · subst hk
      simp [mapInsert, frameFor_cons]
    · have hk' : k ≠ a := fun e => hk e.symm
      simp only [mapInsert, frameFor_cons, if_neg hk', frameFor_filter_ne m a k hk']
      have : (a == k) = false := by simpa using hk
      simp [this]

/-- **T3.** For every peer, the broadcast map carries an entry exactly when our choke flag towards it changed, and
    the entry is the new value — so each connection task writes `Choke`/`Unchoke`/nothing accordingly. -/
theorem T3_map_is_the_set_of_changes (M : Nat) (sorted : List CPeer) (newOpt : List Nat)
    (hnd : (sorted.map (·.addr)).Nodup)
    (hopt : ∀ p ∈ sorted, newOpt.contains p.addr = true → p.amChoked = true ∧ p.interested = true) :
    ∀ pr ∈ sorted.zip (rotate M sorted newOpt).1,
      frameFor (rotate M sorted newOpt).2 pr.1.addr = change pr.1 pr.2 := by
  intro pr hpr
  simp only [rotate, setOptimistic, List.zip_map_right, List.mem_map] at hpr ⊢
  obtain ⟨⟨p, p'⟩, hz, rfl⟩ := hpr
  have hex := rotLoop_map_exact M newOpt sorted 0 hnd (p, p') hz
  have hp : p ∈ sorted := (List.of_mem_zip hz).1
  have haddr : p'.addr = p.addr := by
    -- corresponding positions have the same address
    have : ∀ (ps : List CPeer) (c : Nat), ∀ pr ∈ ps.zip (rotLoop M newOpt ps c).1, pr.2.addr = pr.1.addr := by
      intro ps
      induction ps with
      | nil => intro c pr h; simp [rotLoop] at h
      | cons x xs ih =>
        intro c pr h
        rw [rotLoop_cons, List.zip_cons_cons, List.mem_cons] at h
        rcases h with rfl | h
        · simp [clearOpt_addr, rotStep_addr]
        · exact ih _ pr h
    exact this sorted 0 (p, p') hz
  simp only [Prod.map, id, frameFor_foldl_insert]
  by_cases hc : newOpt.contains p.addr = true
  · obtain ⟨h1, _⟩ := hopt p hp hc
    have hc' : p.addr ∈ newOpt := by simpa using hc
    simp [hc', haddr, change, h1]
  · simp only [hc, haddr, Bool.false_eq_true, if_false]
    exact hex

theorem same_addr_eq (s : CState) (hnd : (s.map (·.addr)).Nodup) (p q : CPeer) (hp : p ∈ s) (hq : q ∈ s)
    (h : p.addr = q.addr) : p = q := by
  induction s with
  | nil => cases hp
  | cons x xs ih =>
    simp only [List.map_cons, List.nodup_cons, List.mem_map, not_exists, not_and] at hnd
    rcases List.mem_cons.mp hp with rfl | hp'
    · rcases List.mem_cons.mp hq with rfl | hq'
      · rfl
      · exact absurd h.symm (hnd.1 q hq')
    · rcases List.mem_cons.mp hq with rfl | hq'
      · exact absurd h (hnd.1 p hp')
      · exact ih hnd.2 hp' hq'

/-! ### "…so each peer's view agrees with the client's" -/

section View

/-- What each peer was last told about our choking it (BEP 3: a connection starts choked). -/
abbrev Told := Nat → Bool

/-- Every connection task writes what its entry of the broadcast map says (`C14_trace`): `Choke`, `Unchoke` or nothing. -/
def toldAfterMap (told : Told) (m : List (Nat × Bool)) : Told :=
  fun a => match frameFor m a with
    | some b => b
    | none => told a

/-- One manager operation together with the choke/unchoke messages it makes the connection tasks write: the `Unchoke`
    that may accompany the reply to a bitfield, and the messages of a rotation's broadcast. -/
def vstep (M : Nat) (s : CState) (told : Told) : COp → CState × Told
  | .add a => (cstepG M s (.add a), fun x => if x = a then true else told x)
  | .bitfield a =>
    let u := match s.find? (·.addr = a) with
      | some p => bitfieldUnchokes M s p
      | none => false
    (cstepG M s (.bitfield a), fun x => if x = a ∧ u = true then false else told x)
  | .rotate sorted newOpt => ((rotate M sorted newOpt).1, toldAfterMap told (rotate M sorted newOpt).2)
  | .interested a => (cstepG M s (.interested a), told)
  | .notInterested a => (cstepG M s (.notInterested a), told)
  | .kill a => (cstepG M s (.kill a), told)

theorem vstep_state (M : Nat) (s : CState) (told : Told) (op : COp) : (vstep M s told op).1 = cstepG M s op := by
  cases op <;> rfl

/-- The peers' view agrees with the client's: every connected peer was last told exactly our present choke flag. -/
def Agree (s : CState) (told : Told) : Prop := ∀ p ∈ s, told p.addr = p.amChoked

theorem zip_of_map_eq : ∀ (l1 l2 : List CPeer), l1.map (·.addr) = l2.map (·.addr) →
    ∀ b ∈ l2, ∃ a, (a, b) ∈ l1.zip l2 ∧ a.addr = b.addr
  | [], [], _, b, hb => by cases hb
  | [], _ :: _, h, _, _ => by simp at h
  | _ :: _, [], h, _, _ => by simp at h
  | x :: xs, y :: ys, h, b, hb => by
    simp only [List.map_cons, List.cons.injEq] at h
    simp only [List.mem_cons] at hb
    rcases hb with rfl | hb
    · exact ⟨x, by simp, h.1⟩
    · obtain ⟨a, ha, hab⟩ := zip_of_map_eq xs ys h.2 b hb
      exact ⟨a, by simp [ha], hab⟩

theorem mem_updatePeer (s : CState) (a : Nat) (f : CPeer → CPeer) (q : CPeer) (h : q ∈ updatePeer s a f) :
    ∃ p ∈ s, q = if p.addr = a then f p else p := by
  unfold updatePeer at h
  simp only [List.mem_map] at h
  obtain ⟨p, hp, rfl⟩ := h
  exact ⟨p, hp, rfl⟩

theorem vstep_agree (M O : Nat) (s : CState) (told : Told) (op : COp) (hinv : Inv M O s) (hadm : op.admissible O s)
    (h : Agree s told) : Agree (vstep M s told op).1 (vstep M s told op).2 := by
  cases op with
  | add a =>
    intro p hp
    simp only [vstep, cstepG, List.mem_cons, List.mem_filter] at hp
    rcases hp with rfl | ⟨hp, hne⟩
    · simp [vstep]
    · have : ¬ p.addr = a := by simpa using hne
      simp only [vstep, this, if_false]
      exact h p hp
  | kill a =>
    intro p hp
    simp only [vstep, cstepG, List.mem_filter] at hp
    exact h p hp.1
  | interested a =>
    intro q hq
    obtain ⟨p, hp, rfl⟩ := mem_updatePeer s a _ q hq
    simp only [vstep]
    split <;> simpa using h p hp
  | notInterested a =>
    intro q hq
    obtain ⟨p, hp, rfl⟩ := mem_updatePeer s a _ q hq
    simp only [vstep]
    split <;> simpa using h p hp
  | bitfield a =>
    intro q hq
    simp only [vstep, cstepG, opBitfield] at hq ⊢
    obtain ⟨p, hp, rfl⟩ := mem_updatePeer s a _ q hq
    by_cases hpa : p.addr = a
    · -- the record found for `a` is this one (addresses are unique)
      have hfind : s.find? (·.addr = a) = some p := by
        cases hf : s.find? (·.addr = a) with
        | none =>
          have := List.find?_eq_none.mp hf p hp
          simp [hpa] at this
        | some p0 =>
          have hp0 := List.mem_of_find?_eq_some hf
          have ha0 : p0.addr = a := by simpa using List.find?_some hf
          rw [same_addr_eq s hinv.nodup p0 p hp0 hp (by rw [ha0, hpa])]
      simp only [hpa, if_true, hfind]
      by_cases hu : bitfieldUnchokes M s p = true
      · simp [hu]
      · have hu' : bitfieldUnchokes M s p = false := by simpa using hu
        simp only [hu', Bool.false_eq_true, and_false, if_false]
        exact h p hp
    · have hne : ¬ (p.addr = a ∧ (match s.find? (·.addr = a) with
          | some p => bitfieldUnchokes M s p
          | none => false) = true) := fun c => hpa c.1
      simp only [hpa, if_false, hne]
      exact h p hp
  | rotate sorted newOpt =>
    obtain ⟨hperm, _, _, hcand⟩ := hadm
    have hnd : (sorted.map (·.addr)).Nodup := (hperm.map _).nodup_iff.mpr hinv.nodup
    have hopt : ∀ p ∈ sorted, newOpt.contains p.addr = true → p.amChoked = true ∧ p.interested = true := by
      intro p hp hc
      have hmem : p.addr ∈ newOpt := by simpa using hc
      obtain ⟨q, hq, hqa, hqc, hqi⟩ := hcand _ hmem
      have : q = p := same_addr_eq s hinv.nodup q p hq (hperm.mem_iff.mp hp) hqa
      rw [← this]; exact ⟨hqc, hqi⟩
    have haddrs : sorted.map (·.addr) = (rotate M sorted newOpt).1.map (·.addr) := by
      simp only [rotate]
      rw [setOptimistic_addrs, rotLoop_addrs]
    intro p' hp'
    simp only [vstep] at hp' ⊢
    obtain ⟨p, hz, hpa⟩ := zip_of_map_eq sorted _ haddrs p' hp'
    have ht3 := T3_map_is_the_set_of_changes M sorted newOpt hnd hopt (p, p') hz
    have hp : p ∈ s := hperm.mem_iff.mp (List.of_mem_zip hz).1
    simp only [toldAfterMap, ← hpa, ht3, change]
    by_cases hch : p.amChoked = p'.amChoked
    · simp only [hch, ne_eq, not_true_eq_false, if_false]
      rw [← hch]; exact h p hp
    · simp [hch]

/-- A history with the messages it causes. -/
def vrun (M : Nat) : CState → Told → List COp → CState × Told
  | s, told, [] => (s, told)
  | s, told, op :: ops => vrun M (vstep M s told op).1 (vstep M s told op).2 ops

/-- **T5 (C14, "each peer's view agrees with the client's").** Along every admissible history — connects, disconnects,
    interest changes, bitfield arrivals, rotations with any rate order and any optimistic pick — after every operation
    (once the tasks have written what the operation makes them write) every connected peer was last told exactly the
    choke state the client has on record for it. -/
theorem T5_peer_view_agrees (M O : Nat) (ops : List COp) (s : CState) (told : Told) (hinv : Inv M O s)
    (hagree : Agree s told) (hrun : AdmissibleRun M O s ops) :
    Agree (vrun M s told ops).1 (vrun M s told ops).2 := by
  induction ops generalizing s told with
  | nil => exact hagree
  | cons op ops ih =>
    simp only [vrun]
    have hst := vstep_state M s told op
    apply ih
    · rw [hst]; exact step_inv M O s op hinv hrun.1
    · exact vstep_agree M O s told op hinv hrun.1 hagree
    · rw [hst]; exact hrun.2

/-- From the empty session nobody has been told anything and nobody is connected. -/
theorem T5_peer_view_agrees_from_start (ops : List COp) (hrun : AdmissibleRun MAX_UNCHOKED MAX_OPTIMISTIC [] ops) :
    Agree (vrun MAX_UNCHOKED [] (fun _ => true) ops).1 (vrun MAX_UNCHOKED [] (fun _ => true) ops).2 :=
  T5_peer_view_agrees MAX_UNCHOKED MAX_OPTIMISTIC ops [] _ (inv_nil _ _) (fun p hp => by cases hp) hrun

end View

/-! ### The connection task's side: own-state broadcasts on the wire (every script) -/

section Wire
open Rdest Rdest.Wire

theorem step14_sound (sha1 : Bytes → Bytes) (st : Bool) (s : HState) (inp : TIn) (s' : HState) (o : List HOut)
    (e : Option Bool) (hR : st = s.alive) (h : tstep sha1 s inp = some (s', o, e)) :
    ∃ st', step14 st (inp, o.filterMap (obsOf sha1), e) = some st' ∧ st' = s'.alive := by
  subst hR
  cases ha : s.alive with
  | false =>
    rw [tstep_dead sha1 s ha inp] at h; cases h
    exact ⟨false, by simp [step14, deadOk], ha.symm⟩
  | true =>
    have hg : (!s.alive) = false := by simp [ha]
    cases inp with
    | bcState entry =>
      simp only [tstep, hstep, hg, Bool.false_eq_true, if_false] at h
      cases entry with
      | none => cases h; exact ⟨true, by simp [step14, expect14], ha.symm⟩
      | some b =>
        cases b with
        | true => cases h; exact ⟨true, by simp [step14, expect14, obsOf], ha.symm⟩
        | false => cases h; exact ⟨true, by simp [step14, expect14, obsOf], ha.symm⟩
    | ticks k =>
      simp only [tstep, ticks_facts s ha, Option.some.injEq, Prod.mk.injEq] at h
      obtain ⟨rfl, rfl, rfl⟩ := h
      refine ⟨_, by simp only [step14, Bool.not_true, Bool.false_eq_true, if_false]; rfl, ?_⟩
      by_cases hh : (kaRun 2 s.keepAlive k).2.2 = true <;> simp [hh]
    | start rep =>
      have hc := tstep_core sha1 s ha (.start rep) (fun k c => by cases c) s' o e h
      refine ⟨_, by simp only [step14, Bool.not_true, Bool.false_eq_true, if_false]; rfl, ?_⟩
      cases e with
      | none => simp [(hc.1 rfl).1]
      | some b => simp [hc.2 (by simp)]
    | frame m rep d =>
      have hc := tstep_core sha1 s ha (.frame m rep d) (fun k c => by cases c) s' o e h
      refine ⟨_, by simp only [step14, Bool.not_true, Bool.false_eq_true, if_false]; rfl, ?_⟩
      cases e with
      | none => simp [(hc.1 rfl).1]
      | some b => simp [hc.2 (by simp)]
    | recvErr =>
      have hc := tstep_core sha1 s ha .recvErr (fun k c => by cases c) s' o e h
      refine ⟨_, by simp only [step14, Bool.not_true, Bool.false_eq_true, if_false]; rfl, ?_⟩
      cases e with
      | none => simp [(hc.1 rfl).1]
      | some b => simp [hc.2 (by simp)]
    | eof =>
      have hc := tstep_core sha1 s ha .eof (fun k c => by cases c) s' o e h
      refine ⟨_, by simp only [step14, Bool.not_true, Bool.false_eq_true, if_false]; rfl, ?_⟩
      cases e with
      | none => simp [(hc.1 rfl).1]
      | some b => simp [hc.2 (by simp)]
    | bcHave i rep =>
      have hc := tstep_core sha1 s ha (.bcHave i rep) (fun k c => by cases c) s' o e h
      refine ⟨_, by simp only [step14, Bool.not_true, Bool.false_eq_true, if_false]; rfl, ?_⟩
      cases e with
      | none => simp [(hc.1 rfl).1]
      | some b => simp [hc.2 (by simp)]

/-- **C14_trace (connection task, every script).** Whatever frames, broadcasts, ticks and stream ends a connection task
    sees, from any live state: each own-state broadcast is put on the wire as exactly the message that corresponds to
    this connection's entry of the broadcast map (`Choke` / `Unchoke` / nothing) and does not end the task — so the
    peer's view of its choke state follows the manager's (`T3_map_is_the_set_of_changes` says the map is exactly the
    set of changes). -/
theorem C14_trace (sha1 : Bytes → Bytes) (s : HState) (halive : s.alive = true) (script : List TIn) :
    P14 (runTrace sha1 s script) = true :=
  checkTrace_run sha1 step14 (fun st s => st = s.alive)
    (fun st s inp s' o e hR h => step14_sound sha1 st s inp s' o e hR h) script true s halive.symm

end Wire

/-! ### The measured rate (`Stats`, `timeout_sync_stats`): what the connection task reports to the manager -/

section Rate

/-- The state a script ends in. -/
def endStats (q : Nat) : Stats → List StatOp → Stats
  | s, [] => s
  | s, .down n :: ops => endStats q (s.downloaded n) ops
  | s, .up n :: ops => endStats q (s.uploaded n) ops
  | s, .unexpected :: ops => endStats q s.unexpectedBlock ops
  | s, .tick :: ops => endStats q (s.tickG q).2 ops

theorem runStats_append (q : Nat) (s : Stats) (a b : List StatOp) :
    runStats q s (a ++ b) = runStats q s a ++ runStats q (endStats q s a) b := by
  induction a generalizing s with
  | nil => rfl
  | cons op ops ih => cases op <;> simp [runStats, endStats, ih]

theorem endStats_append (q : Nat) (s : Stats) (a b : List StatOp) :
    endStats q s (a ++ b) = endStats q (endStats q s a) b := by
  induction a generalizing s with
  | nil => rfl
  | cons op ops ih => cases op <;> simp [endStats, ih]

/-- One statistics interval: `d` bytes downloaded, `u` uploaded, then the timer fires. -/
def interval (w : Nat × Nat) : List StatOp := [.down w.1, .up w.2, .tick]

/-- The queue size the statements below are about, from the source. -/
theorem queue_size : MAX_STATS_QUEUE_SIZE = 2 := by decide

/-- A state at an interval boundary: fresh counters in front of at most one kept interval. -/
def AtBoundary (s : Stats) : Prop :=
  (∃ x, s = { down := [0], up := [0], unexpected := x }) ∨ (∃ p q x, s = { down := [0, p], up := [0, q], unexpected := x })

theorem interval_from_boundary (s : Stats) (h : AtBoundary s) (w : Nat × Nat) :
    endStats 2 s (interval w) = { down := [0, w.1], up := [0, w.2], unexpected := 0 } := by
  rcases h with ⟨x, rfl⟩ | ⟨p, q, x, rfl⟩ <;>
    simp [interval, endStats, Stats.downloaded, Stats.uploaded, Stats.tickG, Stats.shiftG, bump, trimQ]

/-- After any number (≥ 1) of complete intervals the queue holds the interval just ended behind a fresh counter. -/
theorem endStats_intervals (ws : List (Nat × Nat)) (w : Nat × Nat) :
    endStats 2 {} ((ws ++ [w]).flatMap interval) = { down := [0, w.1], up := [0, w.2], unexpected := 0 } := by
  suffices h : ∀ (s : Stats), AtBoundary s →
      endStats 2 s ((ws ++ [w]).flatMap interval) = { down := [0, w.1], up := [0, w.2], unexpected := 0 } by
    exact h {} (Or.inl ⟨0, rfl⟩)
  induction ws with
  | nil =>
    intro s hs
    simpa using interval_from_boundary s hs w
  | cons v vs ih =>
    intro s hs
    simp only [List.cons_append, List.flatMap_cons, endStats_append]
    apply ih
    rw [interval_from_boundary s hs v]
    exact Or.inr ⟨v.1, v.2, 0, rfl⟩

/-- **T4a (C14, measured rate).** The first interval of a connection reports nothing: the manager has no rate for a
    fresh connection (and `tick_waits_for_rates` says the rotation then waits). -/
theorem T4_first_interval_reports_nothing (w : Nat × Nat) : runStats 2 {} (interval w) = [none] := by
  simp [interval, runStats, Stats.downloaded, Stats.uploaded, Stats.tickG, bump]

/-- **T4b (C14, measured rate).** At the end of every later interval the task reports, for download and upload, the
    mean of the bytes moved in the interval just ended and in the one before it (integer division by the queue size),
    whatever happened earlier on the connection. -/
theorem T4_rate_is_the_mean_of_the_last_two_intervals (ws : List (Nat × Nat)) (w0 w1 : Nat × Nat) :
    (runStats 2 {} ((ws ++ [w0, w1]).flatMap interval)).getLast? =
      some (some (some ((w1.1 + w0.1) / 2), some ((w1.2 + w0.2) / 2), 0)) := by
  have hsplit : (ws ++ [w0, w1]).flatMap interval = (ws ++ [w0]).flatMap interval ++ interval w1 := by
    simp [List.flatMap_append]
  rw [hsplit, runStats_append, endStats_intervals ws w0]
  simp [interval, runStats, Stats.downloaded, Stats.uploaded, Stats.tickG, rateG, bump]

/-- Bytes counted in several steps within an interval add up. -/
theorem downloaded_adds (s : Stats) (a b : Nat) : (s.downloaded a).downloaded b = s.downloaded (a + b) := by
  obtain ⟨d, u, x⟩ := s
  cases d with
  | nil => rfl
  | cons h t => simp [Stats.downloaded, bump]; omega

example : runStats 2 {} ([(10, 0), (30, 8), (50, 2)].flatMap interval) =
    [none, some (some 20, some 4, 0), some (some 40, some 5, 0)] := by decide

end Rate

/-! ### Non-vacuity (tests): with a limit of 2, three interested peers send bitfields, then a rotation with an
    optimistic pick; the hypotheses of T1 and T2 are met by this concrete history. -/

def demoOps : List COp :=
  [.add 0, .interested 0, .bitfield 0, .add 1, .interested 1, .bitfield 1, .add 2, .interested 2, .bitfield 2]

def demoState : CState := demoOps.foldl (cstepG 2) []

example : demoState = [{ addr := 2, interested := true }, { addr := 1, amChoked := false, interested := true },
    { addr := 0, amChoked := false, interested := true }] := by decide

example : AdmissibleRun 2 1 [] (demoOps ++ [COp.rotate demoState [2]]) := by
  simp only [demoOps, List.cons_append, List.nil_append, AdmissibleRun, COp.admissible, true_and, and_true]
  refine ⟨List.Perm.refl _, by decide, by decide, ?_⟩
  intro a ha
  simp only [List.mem_singleton] at ha; subst ha
  exact ⟨{ addr := 2, interested := true }, by decide, rfl, rfl, rfl⟩

example : unchokedNum ((demoOps ++ [COp.rotate demoState [2]]).foldl (cstepG 2) []) = 2 ∧
    optimisticNum ((demoOps ++ [COp.rotate demoState [2]]).foldl (cstepG 2) []) = 1 := by decide

/-- (test) The view of the three peers along this history: told what is on record — peer 2 was unchoked by the rotation. -/
example : [0, 1, 2].map (vrun 2 [] (fun _ => true) (demoOps ++ [COp.rotate demoState [2]])).2 = [false, false, false] ∧
    [0, 1, 2].map (vrun 2 [] (fun _ => true) demoOps).2 = [false, false, true] := by decide

/-! ### The rotation timer: `timeout_change_conn_state` -/

theorem optCandidates_spec (s : CState) (a : Nat) (h : a ∈ optCandidates s) :
    ∃ p ∈ s, p.addr = a ∧ p.amChoked = true ∧ p.interested = true := by
  unfold optCandidates at h
  obtain ⟨p, hp, rfl⟩ := List.mem_map.mp h
  obtain ⟨hm, hf⟩ := List.mem_filter.mp hp
  simp only [Bool.and_eq_true] at hf
  exact ⟨p, hm, rfl, hf.1, hf.2⟩

theorem tick_rotateAdmissible (O : Nat) (s : CState) (seeder : Bool) (r : Rates) (sorted : List CPeer)
    (pick : List Nat) (h : tickAdmissible O s seeder r sorted pick) (b : Bool) :
    rotateAdmissible O s sorted (if b then pick else []) := by
  obtain ⟨hp, _, hnd, hlen, hc⟩ := h
  cases b
  · exact ⟨hp, List.nodup_nil, Nat.zero_le _, fun a ha => by cases ha⟩
  · exact ⟨hp, hnd, hlen, fun a ha => optCandidates_spec s a (hc a ha)⟩

/-- **T1 at the timer.** A tick is either no change at all or an admissible rotation, so it keeps the slot bounds
    (and with `T1_slots_bounded` every history of manager operations and ticks does). -/
theorem T1_tick_keeps_slot_bounds (M O rounds : Nat) (s : CState) (round : Nat) (seeder : Bool) (r : Rates)
    (sorted : List CPeer) (pick : List Nat) (hinv : Inv M O s) (hadm : tickAdmissible O s seeder r sorted pick) :
    Inv M O (tickState s (tick M rounds s round r sorted pick)) := by
  unfold tick tickState
  by_cases hready : tickReady s r = true
  · simp only [hready, if_true]
    have hadm' : COp.admissible O s (.rotate sorted (if tickRound rounds round = 0 then pick else [])) := by
      have h := tick_rotateAdmissible O s seeder r sorted pick hadm (decide (tickRound rounds round = 0))
      by_cases h0 : tickRound rounds round = 0
      · simp only [h0, decide_true, if_true] at h ⊢; exact h
      · simp only [h0, decide_false, if_false] at h ⊢; exact (by simpa using h : rotateAdmissible O s sorted [])
    exact step_inv M O s _ hinv hadm'
  · simp only [hready, if_false]
    exact hinv

/-- A tick that finds a peer without reported rates changes nothing and broadcasts nothing. -/
theorem tick_waits_for_rates (M rounds : Nat) (s : CState) (round : Nat) (r : Rates) (sorted : List CPeer)
    (pick : List Nat) (h : tickReady s r = false) :
    tick M rounds s round r sorted pick = (tickRound rounds round, none) := by
  unfold tick; simp [h]

/-- **T2 at the timer.** After a tick that is carried out, the rotation postcondition holds for the rate that
    counts (`uploaded_rate` while downloading, `download_rate` when seeding). -/
theorem T2_tick_postcondition (M O rounds : Nat) (s : CState) (round : Nat) (seeder : Bool) (r : Rates)
    (sorted : List CPeer) (pick : List Nat) (hinv : Inv M O s) (hadm : tickAdmissible O s seeder r sorted pick)
    (after : CState) (m : List (Nat × Bool)) (h : (tick M rounds s round r sorted pick).2 = some (after, m)) :
    let newOpt := if tickRound rounds round = 0 then pick else []
    let rate := tickRate seeder r
    (∀ p ∈ after, p.amChoked = false → newOpt.contains p.addr = false → p.interested = true) ∧
    (∀ q ∈ after, ∀ p ∈ after, q.interested = true → q.amChoked = true → newOpt.contains q.addr = false →
        p.amChoked = false → newOpt.contains p.addr = false → rate q.addr ≤ rate p.addr) ∧
    (∀ p ∈ after, p.interested = false → p.amChoked = true) := by
  intro newOpt rate
  unfold tick at h
  simp only at h
  split at h
  · simp only [Option.some.injEq] at h
    have hadm' := tick_rotateAdmissible O s seeder r sorted pick hadm (decide (tickRound rounds round = 0))
    have hno : (if decide (tickRound rounds round = 0) = true then pick else []) = newOpt := by
      by_cases h0 : tickRound rounds round = 0 <;> simp [newOpt, h0]
    rw [hno] at hadm'
    obtain ⟨hperm, _, _, hcand⟩ := hadm'
    have hopt : ∀ p ∈ sorted, newOpt.contains p.addr = true → p.interested = true := by
      intro p hp hc
      have hmem : p.addr ∈ newOpt := by simpa using hc
      obtain ⟨q, hq, hqa, _, hqi⟩ := hcand _ hmem
      have : q = p := same_addr_eq s hinv.nodup q p hq (hperm.mem_iff.mp hp) hqa
      rw [← this]; exact hqi
    have h2 := T2_rotation_postcondition M rate sorted newOpt hadm.2.1 hopt
    have he : (rotate M sorted newOpt).1 = after := by rw [h]
    rw [he] at h2
    exact h2
  · cases h

/-- Non-vacuity: a carried-out tick in round 2 → 0 with an optimistic pick, and a tick that waits. -/
example :
    let s : CState := [{ addr := 1, interested := true }, { addr := 2, amChoked := false, interested := true }]
    let r : Rates := fun a => if a = 1 then (some 5, some 1) else (some 2, some 9)
    tickAdmissible 1 s false r [s[1]!, s[0]!] [1] ∧
    (tick 1 3 s 2 r [s[1]!, s[0]!] [1]).1 = 0 ∧
    tickState s (tick 1 3 s 2 r [s[1]!, s[0]!] [1]) =
      [{ addr := 2, amChoked := false, interested := true }, { addr := 1, amChoked := false, interested := true, optimistic := true }] ∧
    (tick 1 3 s 2 (fun _ => (none, some 1)) s [1]).2 = none := by
  refine ⟨⟨by decide, by decide, by decide, by decide, by decide⟩, by decide, by decide, by decide⟩

end Rdest.Props.C14
