/-
  Byte-level helpers shared by all models: big-endian u32, decimal rendering/parsing, hex.
  No Mathlib; everything here is executable and used by the compiled driver.
-/
namespace Rdest

abbrev Bytes := List UInt8

/-- `u32::to_be_bytes`. The argument is reduced mod 2^32 exactly like `as u32`. -/
def be32 (n : Nat) : Bytes :=
  [UInt8.ofNat (n / 16777216 % 256), UInt8.ofNat (n / 65536 % 256),
   UInt8.ofNat (n / 256 % 256), UInt8.ofNat (n % 256)]

/-- `u32::from_be_bytes` on four bytes. -/
def fromBe32 (a b c d : UInt8) : Nat :=
  a.toNat * 16777216 + b.toNat * 65536 + c.toNat * 256 + d.toNat

@[simp] theorem be32_length (n : Nat) : (be32 n).length = 4 := rfl

@[simp] theorem drop4_be32_append (n : Nat) (x : Bytes) : (be32 n ++ x).drop 4 = x := rfl

@[simp] theorem drop8_be32_append (n m : Nat) (x : Bytes) : (be32 n ++ (be32 m ++ x)).drop 8 = x := rfl

theorem toNat_ofNat_of_lt {x : Nat} (h : x < 256) : (UInt8.ofNat x).toNat = x := by
  simp [UInt8.toNat_ofNat', Nat.mod_eq_of_lt h]

theorem fromBe32_be32 (n : Nat) (h : n < 4294967296) :
    fromBe32 (UInt8.ofNat (n / 16777216 % 256)) (UInt8.ofNat (n / 65536 % 256))
      (UInt8.ofNat (n / 256 % 256)) (UInt8.ofNat (n % 256)) = n := by
  unfold fromBe32
  rw [toNat_ofNat_of_lt (Nat.mod_lt _ (by decide)), toNat_ofNat_of_lt (Nat.mod_lt _ (by decide)),
      toNat_ofNat_of_lt (Nat.mod_lt _ (by decide)), toNat_ofNat_of_lt (Nat.mod_lt _ (by decide))]
  omega

theorem fromBe32_lt (a b c d : UInt8) : fromBe32 a b c d < 4294967296 := by
  unfold fromBe32
  have := a.toNat_lt; have := b.toNat_lt; have := c.toNat_lt; have := d.toNat_lt
  omega

theorem be32_fromBe32 (a b c d : UInt8) : be32 (fromBe32 a b c d) = [a, b, c, d] := by
  unfold be32 fromBe32
  have ha := a.toNat_lt; have hb := b.toNat_lt; have hc := c.toNat_lt; have hd := d.toNat_lt
  have e1 : (a.toNat * 16777216 + b.toNat * 65536 + c.toNat * 256 + d.toNat) / 16777216 % 256 = a.toNat := by omega
  have e2 : (a.toNat * 16777216 + b.toNat * 65536 + c.toNat * 256 + d.toNat) / 65536 % 256 = b.toNat := by omega
  have e3 : (a.toNat * 16777216 + b.toNat * 65536 + c.toNat * 256 + d.toNat) / 256 % 256 = c.toNat := by omega
  have e4 : (a.toNat * 16777216 + b.toNat * 65536 + c.toNat * 256 + d.toNat) % 256 = d.toNat := by omega
  rw [e1, e2, e3, e4]
  simp

end Rdest
