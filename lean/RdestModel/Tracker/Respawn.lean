/-
  The announce protocol with **several** tracker tasks: `Tracker/Retry.lean` has one tracker task; the manager,
  however, asks for a new announce whenever a connection is lost and no candidate is left (`handle_kill_req` →
  `spawn_tracker`, src/session.rs), which may happen while an earlier tracker task is still retrying.

  * `tasks`   — every tracker task started so far (a started task is never aborted: dropping a `JoinHandle` detaches it);
  * `held`    — `self.tracker.job`: the task whose `JoinHandle` the manager holds (`spawn_tracker` overwrites it);
  * `joining` — the manager is inside `kill_tracker`, awaiting that handle.

  The outcome of every announce is an argument of the step (`attempt i ok`): the tracker may fail, recover and fail
  again in any pattern.  `guard = true` is the repaired `spawn_tracker` (no new task while a handle is held),
  `guard = false` the code as it was.
-/
import RdestModel.Tracker.Retry
namespace Rdest.Tracker.Respawn
open Rdest.Tracker.Retry (Cmd)

inductive Tk where
  | trying | sending (c : Cmd) | sleeping | done
  deriving Repr, DecidableEq

structure St where
  tasks : List Tk
  held : Option Nat
  chan : List Cmd
  joining : Option Nat
  /-- good replies handled so far -/
  handled : Nat
  deriving Repr, DecidableEq

/-- `Session::run`: the first tracker task is started. -/
def init : St := ⟨[.trying], some 0, [], none, 0⟩

inductive Label where
  | attempt (i : Nat) (ok : Bool) | send (i : Nat) | wake (i : Nat) | recv | joined
  | lost            -- the manager handles a `KillReq` with no candidate left and pieces missing
  deriving Repr, DecidableEq

def step (guard : Bool) (cap : Nat) (s : St) : Label → Option St
  | .attempt i ok =>
    match s.tasks[i]? with
    | some .trying => some { s with tasks := s.tasks.set i (.sending (if ok then .resp else .fail)) }
    | _ => none
  | .send i =>
    match s.tasks[i]? with
    | some (.sending c) =>
      if s.chan.length < cap then
        some { s with chan := s.chan ++ [c], tasks := s.tasks.set i (if c = .fail then .sleeping else .done) }
      else none
    | _ => none
  | .wake i =>
    match s.tasks[i]? with
    | some .sleeping => some { s with tasks := s.tasks.set i .trying }
    | _ => none
  | .recv =>
    if s.joining.isSome then none else
    match s.chan with
    | [] => none
    | .resp :: rest => some { s with chan := rest, handled := s.handled + 1, joining := s.held, held := none }
    | .fail :: rest => some { s with chan := rest }
  | .joined =>
    match s.joining with
    | some i => if s.tasks[i]? = some .done then some { s with joining := none } else none
    | none => none
  | .lost =>
    if s.joining.isSome then none else
    if guard && s.held.isSome then some s
    else some { s with tasks := s.tasks ++ [.trying], held := some s.tasks.length }

def exec (guard : Bool) (cap : Nat) : St → List Label → Option St
  | s, [] => some s
  | s, l :: ls => (step guard cap s l).bind fun s' => exec guard cap s' ls

/-- The manager is not stuck in `kill_tracker`: it is not joining, or the awaited task has returned. -/
def managerFree (s : St) : Bool :=
  match s.joining with
  | none => true
  | some i => s.tasks[i]? = some .done

/-- Number of tracker tasks that have not returned (each of them keeps announcing). -/
def live (s : St) : Nat := (s.tasks.filter (· ≠ .done)).length

end Rdest.Tracker.Respawn
