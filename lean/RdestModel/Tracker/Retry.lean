/-
  Model of the announce retry protocol between the tracker task (`TrackerClient::run`, src/tracker_client.rs) and the
  manager (`Session::handle_tracker_cmd` / `kill_tracker`, src/session.rs), connected by the bounded command channel
  (`mpsc::channel(CHANNEL_SIZE)`) and the task's `JoinHandle`.

  Hand-abstracted from tokio's semantics: `send().await` on a full channel blocks the sender, `recv()` takes the
  oldest command, `JoinHandle.await` completes exactly when the task has returned.  `joinOnFail` selects the
  behaviour of `handle_tracker_cmd`: `true` = the manager awaits the tracker task after *every* command (the code as
  it was), `false` = only after `TrackerResp` (the repaired code; the flag the correspondence check ties to the
  real session).
-/
import RdestModel.Bytes
namespace Rdest.Tracker.Retry

inductive Cmd where
  | fail | resp
  deriving Repr, DecidableEq

/-- The tracker task; `left` = failing announces still to come before the good one. -/
inductive TState where
  | trying (left : Nat)             -- about to send the request
  | sending (c : Cmd) (left : Nat)  -- has the outcome, is in `tracker_ch.send(cmd).await`
  | sleeping (left : Nat)           -- `time::sleep(DELAY_MS)` after a failure
  | done                            -- `run` has returned
  deriving Repr, DecidableEq

structure St where
  tracker : TState
  chan : List Cmd
  /-- the manager is inside `kill_tracker`, awaiting the `JoinHandle` -/
  joining : Bool
  /-- the manager has handled `TrackerResp`: handlers were spawned for the listed peers -/
  contacted : Bool
  deriving Repr, DecidableEq

def init (k : Nat) : St := ⟨.trying k, [], false, false⟩

inductive Label where
  | attempt | send | wake | recv | joined
  deriving Repr, DecidableEq

/-- One step; `none` = not enabled. -/
def step (joinOnFail : Bool) (cap : Nat) (s : St) : Label → Option St
  | .attempt =>
    match s.tracker with
    | .trying (n + 1) => some { s with tracker := .sending .fail n }
    | .trying 0 => some { s with tracker := .sending .resp 0 }
    | _ => none
  | .send =>
    match s.tracker with
    | .sending c n =>
      if s.chan.length < cap then
        some { s with chan := s.chan ++ [c], tracker := if c = .fail then .sleeping n else .done }
      else none
    | _ => none
  | .wake =>
    match s.tracker with
    | .sleeping n => some { s with tracker := .trying n }
    | _ => none
  | .recv =>
    if s.joining then none else
    match s.chan with
    | [] => none
    | .resp :: rest => some { s with chan := rest, contacted := true, joining := true }
    | .fail :: rest => some { s with chan := rest, joining := joinOnFail }
  | .joined =>
    if s.joining && s.tracker = .done then some { s with joining := false } else none

def allLabels : List Label := [.attempt, .send, .wake, .recv, .joined]

/-- Some step is enabled. -/
def canStep (joinOnFail : Bool) (cap : Nat) (s : St) : Bool := allLabels.any fun l => (step joinOnFail cap s l).isSome

/-- Run a schedule (a list of labels); `none` if a label is not enabled when its turn comes. -/
def exec (joinOnFail : Bool) (cap : Nat) : St → List Label → Option St
  | s, [] => some s
  | s, l :: ls => (step joinOnFail cap s l).bind fun s' => exec joinOnFail cap s' ls

/-- The manager can take the next command of a connection task (it is not stuck in `kill_tracker`). -/
def managerFree (s : St) : Bool := !s.joining || s.tracker = .done

def rank : TState → Nat
  | .trying n => 3 * n + 2
  | .sending .fail n => 3 * n + 4
  | .sending .resp _ => 1
  | .sleeping n => 3 * n + 3
  | .done => 0

/-- Progress measure: strictly decreased by every step. -/
def mu (s : St) : Nat := 3 * rank s.tracker + 2 * s.chan.length + (if s.joining then 1 else 0)

end Rdest.Tracker.Retry
