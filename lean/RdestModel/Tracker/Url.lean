/-
  Model of the tracker request URL (src/tracker_client.rs): `create_url` = announce URL + `info_hash` escaped with
  `form_urlencoded::byte_serialize`, followed by the pairs `reqwest::RequestBuilder::query` appends
  (`serde_urlencoded`: `key=value` joined by `&`, values escaped with the same `byte_serialize`).
-/
import RdestModel.Bytes
import RdestModel.Bencode.Encode
namespace Rdest.Tracker
open Rdest

def cAmp : UInt8 := 38
def cEq : UInt8 := 61
def cQ : UInt8 := 63
def cPlus : UInt8 := 43
def cPct : UInt8 := 37
def cSpace : UInt8 := 32

/-- Bytes `byte_serialize` leaves alone: `* - . _`, digits, letters. -/
def isUnres (b : UInt8) : Bool :=
  b = 42 || b = 45 || b = 46 || b = 95 || (48 ≤ b && b ≤ 57) || (65 ≤ b && b ≤ 90) || (97 ≤ b && b ≤ 122)

/-- Upper-case hex digit. -/
def hexU (n : Nat) : UInt8 := if n < 10 then UInt8.ofNat (48 + n) else UInt8.ofNat (55 + n)

def serByte (b : UInt8) : Bytes :=
  if isUnres b then [b] else if b = cSpace then [cPlus] else [cPct, hexU (b.toNat / 16), hexU (b.toNat % 16)]

/-- `form_urlencoded::byte_serialize`. -/
def byteSerialize : Bytes → Bytes
  | [] => []
  | b :: rest => serByte b ++ byteSerialize rest

def hexVal? (c : UInt8) : Option Nat :=
  if 48 ≤ c && c ≤ 57 then some (c.toNat - 48)
  else if 65 ≤ c && c ≤ 70 then some (c.toNat - 55)
  else if 97 ≤ c && c ≤ 102 then some (c.toNat - 87)
  else none

/-- `application/x-www-form-urlencoded` decoding of one name or value (what the tracker does): `+` is a space,
    `%XX` is a byte, a `%` not followed by two hex digits is kept. -/
def formDecode : Bytes → Bytes
  | [] => []
  | b :: rest =>
    if b = cPlus then cSpace :: formDecode rest
    else if b = cPct then
      match hr : rest with
      | h :: l :: r =>
        match hexVal? h, hexVal? l with
        | some a, some c => UInt8.ofNat (a * 16 + c) :: formDecode r
        | _, _ => cPct :: formDecode rest
      | _ => cPct :: formDecode rest
    else b :: formDecode rest
termination_by l => l.length
decreasing_by
  all_goals simp_wf
  all_goals first | omega | (subst hr; simp only [List.length_cons]; omega) | (subst hr; simp)

/-- Split at every `sep`. -/
def splitBy (sep : UInt8) : Bytes → List Bytes
  | [] => [[]]
  | b :: rest =>
    if b = sep then [] :: splitBy sep rest
    else match splitBy sep rest with
      | [] => [[b]]
      | h :: t => (b :: h) :: t

/-- Cut at the first `sep`: (before, after); no `sep` → (all, []). -/
def cutAt (sep : UInt8) : Bytes → Bytes × Bytes
  | [] => ([], [])
  | b :: rest => if b = sep then ([], rest) else let r := cutAt sep rest; (b :: r.1, r.2)

/-- `form_urlencoded::parse`: the decoded (name, value) pairs of a query string; empty sequences are skipped. -/
def parsePairs (q : Bytes) : List (Bytes × Bytes) :=
  ((splitBy cAmp q).filter (· ≠ [])).map fun p => let c := cutAt cEq p; (formDecode c.1, formDecode c.2)

/-- The announce URL cut at its first `?`: (scheme, host, path — untouched), and the query if there is one. -/
def splitUrl (announce : Bytes) : Bytes × Option Bytes :=
  let c := cutAt cQ announce
  (c.1, if announce.contains cQ then some c.2 else none)

def sInfoHash : Bytes := [105, 110, 102, 111, 95, 104, 97, 115, 104]          -- info_hash
def sPeerId : Bytes := [112, 101, 101, 114, 95, 105, 100]                     -- peer_id
def sPort : Bytes := [112, 111, 114, 116]                                     -- port
def sUploaded : Bytes := [117, 112, 108, 111, 97, 100, 101, 100]              -- uploaded
def sDownloaded : Bytes := [100, 111, 119, 110, 108, 111, 97, 100, 101, 100]  -- downloaded
def sLeft : Bytes := [108, 101, 102, 116]                                     -- left
def sEvent : Bytes := [101, 118, 101, 110, 116]                               -- event
def sNumwant : Bytes := [110, 117, 109, 119, 97, 110, 116]                    -- numwant
def sStarted : Bytes := [115, 116, 97, 114, 116, 101, 100]                    -- started

/-- `create_url`: the separator is `&` when the announce URL already has a query. -/
def createUrl (announce hash : Bytes) : Bytes :=
  announce ++ (if announce.contains cQ then cAmp else cQ) :: (sInfoHash ++ cEq :: byteSerialize hash)

def pairTxt (k v : Bytes) : Bytes := byteSerialize k ++ cEq :: byteSerialize v

/-- The pairs `run` hands to `RequestBuilder::query`, as (name, value). -/
def params (peerId : Bytes) (port total : Nat) : List (Bytes × Bytes) :=
  [(sPeerId, peerId), (sPort, Bencode.natDec port), (sUploaded, [48]), (sDownloaded, [48]),
   (sLeft, Bencode.natDec total), (sEvent, sStarted), (sNumwant, [50, 48])]

/-- `extend_pairs`: each pair is appended behind a `&` (the URL already has a non-empty query). -/
def appendPairs (url : Bytes) : List (Bytes × Bytes) → Bytes
  | [] => url
  | (k, v) :: rest => appendPairs (url ++ cAmp :: pairTxt k v) rest

/-- The URL of the request that is sent. -/
def requestUrl (announce hash peerId : Bytes) (port total : Nat) : Bytes :=
  appendPairs (createUrl announce hash) (params peerId port total)

/-- The query part of a URL (everything behind the first `?`). -/
def queryOf (url : Bytes) : Bytes := (cutAt cQ url).2

end Rdest.Tracker
