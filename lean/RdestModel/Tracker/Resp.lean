/-
  Model of `TrackerResp::from_bencode` / `parse` / `peer_list` / `peers()` (src/tracker_resp.rs).
-/
import RdestModel.Meta.Parse
namespace Rdest.Tracker
open Rdest Rdest.Bencode Rdest.Meta

def kFailure : Bytes := [102, 97, 105, 108, 117, 114, 101, 32, 114, 101, 97, 115, 111, 110]
def kInterval : Bytes := [105, 110, 116, 101, 114, 118, 97, 108]
def kPeers : Bytes := [112, 101, 101, 114, 115]
def kIp : Bytes := [105, 112]
def kPeerId : Bytes := [112, 101, 101, 114, 32, 105, 100]
def kPort : Bytes := [112, 111, 114, 116]

structure PeerAddr where
  ip : Bytes
  peerId : Bytes
  port : Nat
  deriving Repr, DecidableEq

structure RespM where
  interval : Nat
  peers : List PeerAddr
  deriving Repr, DecidableEq

inductive RField where
  | interval | peers
  deriving Repr, DecidableEq

inductive RErr where
  | decode
  | bencodeMissing
  | dataMissing
  /-- the tracker reported a failure; the text when it is valid UTF-8 (otherwise some replacement text) -/
  | respFail (reason : Option Bytes)
  /-- a negative interval: reported by the code as `TrackerRespFail("interval")` -/
  | badInterval
  | incorrectOrMissing (f : RField)
  deriving Repr, DecidableEq

/-- One element of the `peers` list (the three `filter_map`s of `peer_list`). -/
def peerOf : BValue → Option PeerAddr
  | .dict d =>
    match dictGet d kIp, dictGet d kPeerId, dictGet d kPort with
    | some (.str ip), some (.str id), some (.int port) =>
      if utf8Valid ip ∧ id.length = 20 ∧ 0 ≤ port then some ⟨ip, id, port.toNat⟩ else none
    | _, _, _ => none
  | _ => none

def parseResp (d : Dict) : Except RErr RespM :=
  match dictGet d kFailure with
  | some (.str r) => .error (.respFail (if utf8Valid r then some r else none))
  | _ =>
    match dictGet d kInterval with
    | some (.int i) =>
      if i < 0 then .error .badInterval else
      match dictGet d kPeers with
      | some (.list l) => .ok ⟨i.toNat, l.filterMap peerOf⟩
      | _ => .error (.incorrectOrMissing .peers)
    | _ => .error (.incorrectOrMissing .interval)

def firstResp : List BValue → Except RErr RespM → Except RErr RespM
  | [], e => e
  | .dict d :: rest, _ =>
    match parseResp d with
    | .ok r => .ok r
    | .error e' => firstResp rest (.error e')
  | _ :: rest, e => firstResp rest e

/-- `TrackerResp::from_bencode`. -/
def respFromBencode (body : Bytes) : Except RErr RespM :=
  match decodeImpl body with
  | none => .error .decode
  | some [] => .error .bencodeMissing
  | some vs => firstResp vs (.error .dataMissing)

/-- `peers()`: `ip:port` and the peer id. -/
def peerAddrs (r : RespM) : List (Bytes × Bytes) :=
  r.peers.map fun p => (p.ip ++ 58 :: natDec p.port, p.peerId)

/-- `reqwest::StatusCode::is_success`. -/
def statusSuccess (status : Nat) : Bool := decide (200 ≤ status) && decide (status < 300)

/-- One answered announce as `TrackerClient::parse_resp` sees it: the HTTP status and the body **bytes**. `some m` is
    sent to the manager as `TrackerCmd::TrackerResp`, `none` as `TrackerCmd::Fail` (and the announce is repeated). -/
def exchange (status : Nat) (body : Bytes) : Option RespM :=
  if statusSuccess status then
    match respFromBencode body with
    | .ok m => some m
    | .error _ => none
  else none

end Rdest.Tracker
