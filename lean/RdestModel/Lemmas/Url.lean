/-
  Lemmas about `byte_serialize`, form decoding and query splitting (model: `RdestModel/Tracker/Url.lean`).
-/
import RdestModel.Tracker.Url
set_option linter.unusedSimpArgs false
set_option linter.unusedVariables false
namespace Rdest.Tracker
open Rdest

/-! ### Facts about single bytes, by enumeration of all 256 values -/

theorem forall_byte (P : UInt8 → Prop) (h : ∀ n, n < 256 → P (UInt8.ofNat n)) : ∀ b, P b := by
  intro b
  have := h b.toNat (UInt8.toNat_lt b)
  rwa [UInt8.ofNat_toNat] at this

theorem unres_facts : ∀ b : UInt8, isUnres b = true → b ≠ cPlus ∧ b ≠ cPct ∧ b ≠ cAmp ∧ b ≠ cEq ∧ b ≠ cQ :=
  forall_byte _ (by decide +kernel)

theorem escape_facts : ∀ b : UInt8,
    hexVal? (hexU (b.toNat / 16)) = some (b.toNat / 16) ∧ hexVal? (hexU (b.toNat % 16)) = some (b.toNat % 16) ∧
    UInt8.ofNat (b.toNat / 16 * 16 + b.toNat % 16) = b ∧
    isUnres (hexU (b.toNat / 16)) = true ∧ isUnres (hexU (b.toNat % 16)) = true :=
  forall_byte _ (by decide +kernel)

/-! ### T1: decoding what `byte_serialize` wrote -/

theorem formDecode_cons_plain (b : UInt8) (rest : Bytes) (h1 : b ≠ cPlus) (h2 : b ≠ cPct) :
    formDecode (b :: rest) = b :: formDecode rest := by
  rw [formDecode.eq_def]; simp [h1, h2]

theorem formDecode_plus (rest : Bytes) : formDecode (cPlus :: rest) = cSpace :: formDecode rest := by
  rw [formDecode.eq_def]; simp

theorem formDecode_pct (h l : UInt8) (a c : Nat) (rest : Bytes) (ha : hexVal? h = some a) (hc : hexVal? l = some c) :
    formDecode (cPct :: h :: l :: rest) = UInt8.ofNat (a * 16 + c) :: formDecode rest := by
  rw [formDecode.eq_def]
  have : ¬ (cPct = cPlus) := by decide
  simp [this, ha, hc]

theorem serByte_decode (b : UInt8) (rest : Bytes) : formDecode (serByte b ++ rest) = b :: formDecode rest := by
  unfold serByte
  by_cases hu : isUnres b = true
  · rw [if_pos hu]
    obtain ⟨h1, h2, _⟩ := unres_facts b hu
    exact formDecode_cons_plain b rest h1 h2
  · rw [if_neg hu]
    by_cases hs : b = cSpace
    · rw [if_pos hs, hs]; exact formDecode_plus rest
    · rw [if_neg hs]
      obtain ⟨e1, e2, e3, _, _⟩ := escape_facts b
      simp only [List.cons_append, List.nil_append]
      rw [formDecode_pct _ _ _ _ rest e1 e2, e3]

/-- **`formDecode (byteSerialize bs) = bs`** for every byte string. -/
theorem formDecode_serialize (bs : Bytes) : formDecode (byteSerialize bs) = bs := by
  induction bs with
  | nil => rw [byteSerialize, formDecode.eq_def]
  | cons b rest ih => rw [byteSerialize, serByte_decode, ih]

/-! ### T2: the escaped text consists of harmless characters only -/

def Harmless (c : UInt8) : Prop := isUnres c = true ∨ c = cPlus ∨ c = cPct

theorem serByte_harmless (b : UInt8) : ∀ c ∈ serByte b, Harmless c := by
  intro c hc
  unfold serByte at hc
  by_cases hu : isUnres b = true
  · rw [if_pos hu] at hc; simp at hc; subst hc; exact Or.inl hu
  · rw [if_neg hu] at hc
    by_cases hs : b = cSpace
    · rw [if_pos hs] at hc; simp at hc; subst hc; exact Or.inr (Or.inl rfl)
    · rw [if_neg hs] at hc
      obtain ⟨_, _, _, u1, u2⟩ := escape_facts b
      simp only [List.mem_cons, List.not_mem_nil, or_false] at hc
      rcases hc with rfl | rfl | rfl
      · exact Or.inr (Or.inr rfl)
      · exact Or.inl u1
      · exact Or.inl u2

theorem serialize_harmless (bs : Bytes) : ∀ c ∈ byteSerialize bs, Harmless c := by
  induction bs with
  | nil => intro c hc; simp [byteSerialize] at hc
  | cons b rest ih =>
    intro c hc
    rw [byteSerialize, List.mem_append] at hc
    rcases hc with h | h
    · exact serByte_harmless b c h
    · exact ih c h

theorem harmless_not_sep (c : UInt8) (h : Harmless c) : c ≠ cAmp ∧ c ≠ cEq ∧ c ≠ cQ := by
  rcases h with h | h | h
  · obtain ⟨_, _, h3, h4, h5⟩ := unres_facts c h; exact ⟨h3, h4, h5⟩
  · subst h; decide
  · subst h; decide

theorem serialize_no_sep (bs : Bytes) : cAmp ∉ byteSerialize bs ∧ cEq ∉ byteSerialize bs ∧ cQ ∉ byteSerialize bs := by
  refine ⟨fun h => ?_, fun h => ?_, fun h => ?_⟩
  · exact (harmless_not_sep _ (serialize_harmless bs _ h)).1 rfl
  · exact (harmless_not_sep _ (serialize_harmless bs _ h)).2.1 rfl
  · exact (harmless_not_sep _ (serialize_harmless bs _ h)).2.2 rfl

/-! ### Splitting -/

theorem splitBy_ne_nil (s : UInt8) (l : Bytes) : splitBy s l ≠ [] := by
  cases l with
  | nil => simp [splitBy]
  | cons b rest =>
    simp only [splitBy]
    split
    · simp
    · split <;> simp

theorem splitBy_nosep (s : UInt8) (l : Bytes) (h : s ∉ l) : splitBy s l = [l] := by
  induction l with
  | nil => rfl
  | cons b rest ih =>
    have hb : b ≠ s := fun e => h (by simp [e])
    have hr : s ∉ rest := fun e => h (List.mem_cons_of_mem _ e)
    simp only [splitBy, hb, if_false, ih hr]

theorem splitBy_append_sep (s : UInt8) (a b : Bytes) : splitBy s (a ++ s :: b) = splitBy s a ++ splitBy s b := by
  induction a with
  | nil => simp [splitBy]
  | cons x xs ih =>
    simp only [List.cons_append, splitBy]
    by_cases hx : x = s
    · simp only [hx, if_true, ih, List.cons_append]
    · simp only [hx, if_false, ih]
      cases hsp : splitBy s xs with
      | nil => exact absurd hsp (splitBy_ne_nil s xs)
      | cons h t => simp

theorem cutAt_nosep_append (s : UInt8) (k v : Bytes) (h : s ∉ k) : cutAt s (k ++ s :: v) = (k, v) := by
  induction k with
  | nil => simp [cutAt]
  | cons b rest ih =>
    have hb : b ≠ s := fun e => h (by simp [e])
    have hr : s ∉ rest := fun e => h (List.mem_cons_of_mem _ e)
    simp only [List.cons_append, cutAt, hb, if_false, ih hr]

theorem cutAt_nosep (s : UInt8) (k : Bytes) (h : s ∉ k) : cutAt s k = (k, []) := by
  induction k with
  | nil => rfl
  | cons b rest ih =>
    have hb : b ≠ s := fun e => h (by simp [e])
    have hr : s ∉ rest := fun e => h (List.mem_cons_of_mem _ e)
    simp only [cutAt, hb, if_false, ih hr]

/-- A byte string containing `s` is its part before the first `s`, the `s`, and the rest. -/
theorem cutAt_mem (s : UInt8) (l : Bytes) (h : s ∈ l) :
    l = (cutAt s l).1 ++ s :: (cutAt s l).2 ∧ s ∉ (cutAt s l).1 := by
  induction l with
  | nil => cases h
  | cons b rest ih =>
    by_cases hb : b = s
    · simp [cutAt, hb]
    · have hr : s ∈ rest := by
        rcases List.mem_cons.mp h with e | e
        · exact absurd e.symm hb
        · exact e
      obtain ⟨h1, h2⟩ := ih hr
      simp only [cutAt, hb, if_false]
      refine ⟨by simp only [List.cons_append]; rw [← h1], ?_⟩
      intro hm
      rcases List.mem_cons.mp hm with e | e
      · exact hb e.symm
      · exact h2 e

/-! ### Pairs -/

theorem parsePairs_append (a b : Bytes) : parsePairs (a ++ cAmp :: b) = parsePairs a ++ parsePairs b := by
  simp only [parsePairs, splitBy_append_sep, List.filter_append, List.map_append]

theorem pairTxt_no_amp (k v : Bytes) : cAmp ∉ pairTxt k v := by
  intro h
  simp only [pairTxt, List.mem_append, List.mem_cons] at h
  rcases h with h | h | h
  · exact (serialize_no_sep k).1 h
  · revert h; decide
  · exact (serialize_no_sep v).1 h

theorem parsePairs_pair (k v : Bytes) : parsePairs (pairTxt k v) = [(k, v)] := by
  have hne : pairTxt k v ≠ [] := by simp [pairTxt]
  simp only [parsePairs, splitBy_nosep cAmp _ (pairTxt_no_amp k v), List.filter_cons, hne, ne_eq, not_false_eq_true,
    decide_true, if_true, List.filter_nil, List.map_cons, List.map_nil]
  simp only [pairTxt, cutAt_nosep_append cEq _ _ (serialize_no_sep k).2.1, formDecode_serialize]

theorem appendPairs_prefix (p u : Bytes) (ps : List (Bytes × Bytes)) : appendPairs (p ++ u) ps = p ++ appendPairs u ps := by
  induction ps generalizing u with
  | nil => rfl
  | cons kv rest ih =>
    obtain ⟨k, v⟩ := kv
    simp only [appendPairs]
    rw [List.append_assoc, ih]

theorem parsePairs_appendPairs (q : Bytes) (ps : List (Bytes × Bytes)) :
    parsePairs (appendPairs q ps) = parsePairs q ++ ps := by
  induction ps generalizing q with
  | nil => simp [appendPairs]
  | cons kv rest ih =>
    obtain ⟨k, v⟩ := kv
    simp only [appendPairs]
    rw [ih, parsePairs_append, parsePairs_pair, List.append_assoc]; rfl

end Rdest.Tracker
