/-
  Helper lemmas for the `create_file` round trip (C17-T4): the canonical encoding of a well-formed value is a value
  text in the sense of `Syntax.Txt`.
-/
import RdestModel.Lemmas.Syntax
import RdestModel.Props.C15
set_option linter.unusedSimpArgs false
set_option linter.unusedVariables false
namespace Rdest.Syntax
open Rdest Rdest.Bencode Rdest.Meta Rdest.Props.C15

theorem strTxt_natDec (s : Bytes) (h : s.length < 2 ^ 64) : StrTxt (natDec s.length ++ cColon :: s) s := by
  cases hd : natDec s.length with
  | nil => exact absurd hd (natDec_ne_nil _)
  | cons d0 ds =>
    refine ⟨d0, ds, by simp, ?_, ?_, h⟩
    · rw [← hd]; exact natDec_all_digits _
    · rw [← hd]; exact decToNat_natDec _

def toEntry (kv : Bytes × BValue) : Entry := ⟨natDec kv.1.length ++ cColon :: kv.1, kv.1, encode kv.2, kv.2⟩

theorem entriesTxt_toEntry (d : List (Bytes × BValue)) : entriesTxt (d.map toEntry) = encodeDict d := by
  induction d with
  | nil => rfl
  | cons e es ih =>
    obtain ⟨k, v⟩ := e
    simp only [entriesTxt, List.map_cons, List.flatten_cons, toEntry, encodeDict] at ih ⊢
    rw [ih]

theorem entriesKV_toEntry (d : List (Bytes × BValue)) : entriesKV (d.map toEntry) = d := by
  induction d with
  | nil => rfl
  | cons e es ih => simp only [entriesKV, List.map_cons, toEntry] at ih ⊢; rw [ih]

theorem itemsTxt_encode (l : List BValue) : itemsTxt (l.map fun v => (encode v, v)) = encodeList l := by
  induction l with
  | nil => rfl
  | cons v vs ih => simp only [itemsTxt, List.map_cons, List.flatten_cons, encodeList] at ih ⊢; rw [ih]

mutual
/-- The encoder's output for a well-formed value is a value text of that value. -/
theorem txt_encode (v : BValue) (hw : wf v = true) : Txt (encode v) v := by
  match v, hw with
  | .int i, hw =>
    simp only [wf, decide_eq_true_eq] at hw
    exact Txt.int i hw.1 hw.2
  | .str s, hw =>
    simp only [wf, decide_eq_true_eq] at hw
    exact Txt.str _ s (strTxt_natDec s hw)
  | .list items, hw =>
    simp only [wf] at hw
    have h := Txt.list (items.map fun v => (encode v, v)) (by
      intro t ht
      obtain ⟨v, hv, rfl⟩ := List.mem_map.mp ht
      exact txt_encodeList items hw v hv)
    rw [itemsTxt_encode] at h
    have hm : (items.map fun v => (encode v, v)).map (·.2) = items := by
      rw [List.map_map]; exact List.map_id' _
    rw [hm] at h
    simpa [encode] using h
  | .dict d, hw =>
    simp only [wf, Bool.and_eq_true] at hw
    have hk : ∀ e ∈ d.map toEntry, StrTxt e.keyTxt e.key := by
      intro e he
      obtain ⟨kv, hkv, rfl⟩ := List.mem_map.mp he
      exact strTxt_natDec kv.1 (txt_encodeEntries d hw.2 kv hkv).1
    have hv : ∀ e ∈ d.map toEntry, Txt e.valTxt e.val := by
      intro e he
      obtain ⟨kv, hkv, rfl⟩ := List.mem_map.mp he
      exact (txt_encodeEntries d hw.2 kv hkv).2
    have h := Txt.dict (d.map toEntry) hk hv
    rw [entriesTxt_toEntry, entriesKV_toEntry, mkDict_ascending d hw.1] at h
    simpa [encode] using h
theorem txt_encodeList (l : List BValue) (hw : wfList l = true) : ∀ v ∈ l, Txt (encode v) v := by
  match l, hw with
  | [], _ => intro v hv; cases hv
  | x :: xs, hw =>
    simp only [wfList, Bool.and_eq_true] at hw
    intro v hv
    rcases List.mem_cons.mp hv with h | hv'
    · rw [h]; exact txt_encode x hw.1
    · exact txt_encodeList xs hw.2 v hv'
theorem txt_encodeEntries (d : List (Bytes × BValue)) (hw : wfEntries d = true) :
    ∀ kv ∈ d, kv.1.length < 2 ^ 64 ∧ Txt (encode kv.2) kv.2 := by
  match d, hw with
  | [], _ => intro kv hkv; cases hkv
  | (k, v) :: es, hw =>
    simp only [wfEntries, Bool.and_eq_true, decide_eq_true_eq] at hw
    intro kv hkv
    rcases List.mem_cons.mp hkv with h | hkv'
    · rw [h]; exact ⟨hw.1.1, txt_encode v hw.1.2⟩
    · exact txt_encodeEntries es hw.2 kv hkv'
end

end Rdest.Syntax
