/-
  Which steps of the connection-task model store a piece file / report `PieceDone`, and how the hash of the piece
  being downloaded changes.  Used by Props/C01 (`C01_trace`).
-/
import RdestModel.Lemmas.Adv
set_option linter.unusedSimpArgs false
set_option linter.unusedVariables false
namespace Rdest.Swarm
open Rdest Rdest.Wire Rdest.Gen

/-- Stores (`true`) and `PieceDone` reports (`false`) among the outputs, in order. -/
def sdO (o : List HOut) : List Bool :=
  o.filterMap fun | .save .. => some true | .cmd .pieceDone => some false | _ => none

def savesO (sha1 : Bytes → Bytes) (o : List HOut) : List (Bytes × Bytes × Nat) :=
  o.filterMap fun | .save h d => some (h, sha1 d, d.length) | _ => none

theorem sdO_append (a b : List HOut) : sdO (a ++ b) = sdO a ++ sdO b := by simp [sdO, List.filterMap_append]
theorem savesO_append (sha1 : Bytes → Bytes) (a b : List HOut) : savesO sha1 (a ++ b) = savesO sha1 a ++ savesO sha1 b := by
  simp [savesO, List.filterMap_append]

theorem savedObs_obs (sha1 : Bytes → Bytes) (o : List HOut) : savedObs (o.filterMap (obsOf sha1)) = savesO sha1 o := by
  induction o with
  | nil => rfl
  | cons x xs ih =>
    cases x with
    | write m => simp only [List.filterMap_cons, obsOf, savedObs, savesO] at ih ⊢; exact ih
    | cmd c => simp only [List.filterMap_cons, obsOf, savedObs, savesO] at ih ⊢; exact ih
    | save h d => simp only [List.filterMap_cons, obsOf, savedObs, savesO] at ih ⊢; rw [ih]
    | load h => simp only [List.filterMap_cons, obsOf, savedObs, savesO] at ih ⊢; exact ih

/-- The monitor's "stores and reports, in order" expression, on the model's outputs. -/
theorem doneExpr_obs (sha1 : Bytes → Bytes) (o : List HOut) : sdExpr (o.filterMap (obsOf sha1)) = sdO o := by
  induction o with
  | nil => rfl
  | cons x xs ih =>
    cases x with
    | write m => simp only [List.filterMap_cons, obsOf, sdExpr, List.filter_cons, isSD, sdO] at ih ⊢; exact ih
    | cmd c =>
      cases c <;> simp only [List.filterMap_cons, obsOf, sdExpr, List.filter_cons, isSD, isSavedObs, sdO, List.map_cons, if_true, if_false] at ih ⊢ <;>
        first | exact ih | (rw [ih])
    | save h d => simp only [List.filterMap_cons, obsOf, sdExpr, List.filter_cons, isSD, isSavedObs, sdO, List.map_cons, if_true, if_false] at ih ⊢; rw [ih]
    | load h => simp only [List.filterMap_cons, obsOf, sdExpr, List.filter_cons, isSD, sdO] at ih ⊢; exact ih

/-- Nothing stored, nothing reported done. -/
def NoSD (o : List HOut) : Prop := sdO o = []

theorem nosd_nil : NoSD [] := rfl
theorem nosd_append {a b : List HOut} (ha : NoSD a) (hb : NoSD b) : NoSD (a ++ b) := by
  unfold NoSD at *; rw [sdO_append, ha, hb]; rfl

theorem nosd_saves (sha1 : Bytes → Bytes) (o : List HOut) (h : NoSD o) : savesO sha1 o = [] := by
  induction o with
  | nil => rfl
  | cons x xs ih =>
    cases x with
    | write m => simp only [NoSD, sdO, savesO, List.filterMap_cons] at h ih ⊢; exact ih h
    | cmd c =>
      cases c <;> simp only [NoSD, sdO, savesO, List.filterMap_cons] at h ih ⊢ <;> first | exact ih h | cases h
    | save hh d => simp [NoSD, sdO] at h
    | load hh => simp only [NoSD, sdO, savesO, List.filterMap_cons] at h ih ⊢; exact ih h

/-- The listed hash of the piece this connection is downloading. -/
def hashOf (s : HState) : Option Bytes := s.pieceRx.map (·.hash)

theorem sendRequest_sd (s : HState) : hashOf (sendRequest s).1 = hashOf s ∧ NoSD (sendRequest s).2 := by
  unfold sendRequest
  split
  · rename_i rx hrx
    split
    · refine ⟨?_, rfl⟩; simp [hashOf, hrx]
    · exact ⟨rfl, rfl⟩
  · exact ⟨rfl, rfl⟩

theorem newPieceRequest_sd (s : HState) (i : Bool) (rd : ReqData) :
    hashOf (newPieceRequest s i rd).1 = some rd.hash ∧ NoSD (newPieceRequest s i rd).2 := by
  unfold newPieceRequest
  simp only
  have h1 := sendRequest_sd { s with pieceRx := some (newRx rd) }
  have h2 := sendRequest_sd (sendRequest { s with pieceRx := some (newRx rd) }).1
  refine ⟨?_, ?_⟩
  · rw [h2.1, h1.1]; rfl
  · have hq0 : NoSD (if i = true then [HOut.write Msg.interested] else []) := by cases i <;> rfl
    exact nosd_append (nosd_append hq0 h1.2) h2.2

/-- What the reply of `PieceDone`/`PieceCancel` assigns. -/
def assignedBy (rep : Rep) : Option Bytes :=
  match rep with
  | .req rd _ => some rd.hash
  | _ => none

theorem pieceFinishReply_sd (s : HState) (hs : hashOf s = none) (rep : Rep) (s' : HState) (o : List HOut) (b : Bool)
    (h : pieceFinishReply s rep = some (s', o, b)) : hashOf s' = assignedBy rep ∧ NoSD o := by
  unfold pieceFinishReply at h
  split at h
  · simp only [Option.some.injEq, Prod.mk.injEq] at h
    obtain ⟨h1, h2, _⟩ := h
    rw [← h1, ← h2]; exact newPieceRequest_sd s false _
  · cases h; exact ⟨hs, rfl⟩
  · cases h; exact ⟨hs, rfl⟩
  · cases h; exact ⟨hs, rfl⟩
  · cases h

theorem consultRequest_sd (disk : Bytes → Option Bytes) (s : HState) (idx : Nat) (rep : Rep)
    (s1 : HState) (o1 : List HOut) (b1 : Bool) (h : consultRequest disk s idx rep = some (s1, o1, b1)) :
    hashOf s1 = hashOf s ∧ NoSD o1 := by
  unfold consultRequest at h
  split at h
  · split at h
    · split at h
      · cases h; exact ⟨rfl, rfl⟩
      · cases h; exact ⟨rfl, rfl⟩
    · cases h; exact ⟨rfl, rfl⟩
    · cases h
  · cases h; exact ⟨rfl, rfl⟩

theorem serveRequest_sd (s : HState) (idx b l : Nat) : NoSD (serveRequest s idx b l).1 := by
  unfold serveRequest
  split
  · rfl
  · split
    · rfl
    · split
      · rfl
      · split <;> rfl

/-- `handle_piece`, as seen by the C01 monitor. -/
theorem onPiece_sd (sha1 : Bytes → Bytes) (s : HState) (idx b : Nat) (blk : Bytes) (rep : Rep)
    (s' : HState) (o : List HOut) (c : Cont) (h : onPiece sha1 s idx b blk rep = some (s', o, c)) :
    -- nothing stored: the hash of the piece in progress is unchanged (or the task ends)
    (NoSD o ∧ (c = .go → hashOf s' = hashOf s) ∧ cmO o = [] ∨
    -- the piece is complete and verified: stored under its listed hash, reported, and the reply decides what is next
     ∃ hsh buff o2, hashOf s = some hsh ∧ sha1 buff = hsh ∧ o = [.save hsh buff, .cmd .pieceDone] ++ o2 ∧ NoSD o2 ∧
       hashOf s' = assignedBy rep ∧ (∀ rd w, rep = .req rd w → w = false)) := by
  simp only [onPiece] at h
  split at h
  · cases h; exact Or.inl ⟨rfl, fun _ => rfl, rfl⟩
  · rename_i rx hrx
    split at h
    · cases h; exact Or.inl ⟨rfl, fun _ => rfl, rfl⟩
    · split at h
      · split at h
        · cases h; exact Or.inl ⟨rfl, (fun c => by cases c), rfl⟩
        · rename_i hok
          have hsha : sha1 (writeSlice rx.buff b blk) = rx.hash := by simpa using hok
          have hfin : ∀ s2 o2 bb, pieceFinishReply { s with pieceRx := none } rep = some (s2, o2, bb) →
              hashOf s2 = assignedBy rep ∧ NoSD o2 ∧ (∀ rd w, rep = .req rd w → w = false) := by
            intro s2 o2 bb hpf
            obtain ⟨h1, h2⟩ := pieceFinishReply_sd { s with pieceRx := none } rfl rep s2 o2 bb hpf
            refine ⟨h1, h2, ?_⟩
            intro rd w hr; subst hr
            cases w with
            | false => rfl
            | true => simp [pieceFinishReply] at hpf
          split at h
          · rename_i s2 o2 hpf
            cases h
            obtain ⟨h1, h2, h3⟩ := hfin _ _ _ hpf
            exact Or.inr ⟨rx.hash, _, o2, by simp [hashOf, hrx], hsha, rfl, h2, h1, h3⟩
          · rename_i s2 o2 hpf
            cases h
            obtain ⟨h1, h2, h3⟩ := hfin _ _ _ hpf
            exact Or.inr ⟨rx.hash, _, o2, by simp [hashOf, hrx], hsha, rfl, h2, h1, h3⟩
          · cases h
      · cases h
        obtain ⟨hk, hq⟩ := sendRequest_sd { s with pieceRx := some { rx with requested := rx.requested.filter (· ≠ (b, blk.length)), buff := writeSlice rx.buff b blk } }
        refine Or.inl ⟨hq, fun _ => ?_, ?_⟩
        · rw [hk]; simp [hashOf, hrx]
        · unfold sendRequest; simp only; split <;> rfl

/-- Every per-message handler other than handshake, unchoke, have and piece: nothing stored or reported done, the
    piece in progress unchanged. -/
theorem dispatch_sd (sha1 : Bytes → Bytes) (disk : Bytes → Option Bytes) (s : HState) (m : Msg) (rep : Rep)
    (hnh : isHandshake m = false) (hnu : m ≠ .unchoke) (hnv : ∀ i, m ≠ .haveP i) (hnp : ∀ i b blk, m ≠ .piece i b blk)
    (s' : HState) (o : List HOut) (c : Cont) (h : dispatch sha1 disk s m rep = some (s', o, c)) :
    hashOf s' = hashOf s ∧ NoSD o := by
  cases m with
  | handshake ih pid => simp [isHandshake] at hnh
  | unchoke => exact absurd rfl hnu
  | haveP i => exact absurd rfl (hnv i)
  | piece i b blk => exact absurd rfl (hnp i b blk)
  | keepAlive => simp only [dispatch] at h; cases h; exact ⟨rfl, rfl⟩
  | choke => simp only [dispatch] at h; cases h; exact ⟨rfl, rfl⟩
  | interested => simp only [dispatch] at h; cases h; exact ⟨rfl, rfl⟩
  | cancel i b l => simp only [dispatch] at h; cases h; exact ⟨rfl, rfl⟩
  | notInterested =>
    simp only [dispatch, onNotInterested] at h
    split at h
    · cases h; exact ⟨rfl, rfl⟩
    · cases h; exact ⟨rfl, rfl⟩
    · cases h
  | bitfield bs =>
    simp only [dispatch, onBitfield] at h
    split at h
    · cases h; exact ⟨rfl, rfl⟩
    · split at h
      · rename_i u i
        cases h
        refine ⟨rfl, ?_⟩
        cases u <;> cases i <;> rfl
      · cases h
  | request idx b l =>
    simp only [dispatch, onRequest] at h
    split at h
    · cases h
    · rename_i s1 o1 hcr
      cases h
      exact consultRequest_sd disk s idx rep _ _ _ hcr
    · rename_i s1 o1 hcr
      cases h
      obtain ⟨hk, hq⟩ := consultRequest_sd disk s idx rep _ _ _ hcr
      exact ⟨hk, nosd_append hq (serveRequest_sd _ idx b l)⟩

theorem cmO_npr (s : HState) (i : Bool) (rd : ReqData) : cmO (newPieceRequest s i rd).2 = [] := by
  unfold newPieceRequest sendRequest
  simp only
  cases i <;> repeat' (first | split | rfl)

theorem cmO_pfr (s : HState) (rep : Rep) (s' : HState) (o : List HOut) (b : Bool)
    (h : pieceFinishReply s rep = some (s', o, b)) : cmO o = [] := by
  unfold pieceFinishReply at h
  split at h
  · simp only [Option.some.injEq, Prod.mk.injEq] at h; rw [← h.2.1]; exact cmO_npr s false _
  · cases h; rfl
  · cases h; rfl
  · cases h; rfl
  · cases h


end Rdest.Swarm
