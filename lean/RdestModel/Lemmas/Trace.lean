/- Generic soundness argument for trace monitors, and facts about single steps of the task model. -/
import RdestModel.Swarm.Preds
import RdestModel.Lemmas.Handler
set_option linter.unusedSimpArgs false
set_option linter.unusedVariables false
namespace Rdest.Swarm
open Rdest Rdest.Wire Rdest.Gen

/-- If every model step is accepted by the monitor from related states, every model trace is accepted. -/
theorem checkTrace_run {σ : Type} (sha1 : Bytes → Bytes) (step : σ → TEntry → Option σ) (R : σ → HState → Prop)
    (hstep : ∀ st s inp s' o e, R st s → tstep sha1 s inp = some (s', o, e) →
      ∃ st', step st (inp, o.filterMap (obsOf sha1), e) = some st' ∧ R st' s') :
    ∀ (script : List TIn) (st : σ) (s : HState), R st s → checkTrace step st (runTrace sha1 s script) = true := by
  intro script
  induction script with
  | nil => intro st s _; simp [runTrace, checkTrace]
  | cons i is ih =>
    intro st s hR
    cases hts : tstep sha1 s i with
    | none => simp [runTrace, hts, checkTrace]
    | some r =>
      obtain ⟨s', o, e⟩ := r
      obtain ⟨st', h1, h2⟩ := hstep st s i s' o e hR hts
      simp only [runTrace, hts, checkTrace, h1]
      exact ih st' s' h2

/-- A task that has ended reacts to nothing. -/
theorem tstep_dead (sha1 : Bytes → Bytes) (s : HState) (hd : s.alive = false) (inp : TIn) :
    tstep sha1 s inp = some (s, [], none) := by
  cases inp <;> simp [tstep, hstep, hstart, ticksClosed, hd]

theorem deadOk_nil (inp : TIn) : deadOk (inp, ([] : List HOut).filterMap (obsOf sha1), none) = true := rfl

/-- Closed form of the timer: what changes, what is written. -/
theorem ticks_facts (s : HState) (ha : s.alive = true) (k : Nat) :
    ticksClosed s k =
      ({ s with keepAlive := (kaRun KEEP_ALIVE_LIMIT s.keepAlive k).2.1, alive := (kaRun KEEP_ALIVE_LIMIT s.keepAlive k).2.2 },
       List.replicate (kaRun KEEP_ALIVE_LIMIT s.keepAlive k).1 (.write .keepAlive),
       if (kaRun KEEP_ALIVE_LIMIT s.keepAlive k).2.2 then none else some false) := by
  simp [ticksClosed, ha]

theorem obs_replicate_ka (sha1 : Bytes → Bytes) (n : Nat) :
    (List.replicate n (HOut.write Msg.keepAlive)).filterMap (obsOf sha1) = List.replicate n (Obs.write Msg.keepAlive) := by
  induction n with
  | zero => rfl
  | succ n ih => simp [List.replicate_succ, obsOf, ih]

end Rdest.Swarm
