/- Helper lemmas for the manager model (Props/C12, C01). -/
import RdestModel.Swarm.Manager
set_option linter.unusedSimpArgs false
namespace Rdest.Swarm

theorem modifyAt_getElem? (l : List Status) (i j : Nat) (f : Status → Status) :
    (modifyAt l i f)[j]? = if j = i then l[j]?.map f else l[j]? := by
  unfold modifyAt
  cases h : l[i]? with
  | none =>
    by_cases hj : j = i
    · subst hj; simp [h]
    · simp [hj]
  | some x =>
    have hlt : i < l.length := by
      cases Nat.lt_or_ge i l.length with
      | inl h' => exact h'
      | inr h' => have := List.getElem?_eq_none h'; rw [this] at h; simp at h
    simp only [List.getElem?_set]
    by_cases hj : i = j
    · subst hj
      have hx : l[i] = x := by
        have := List.getElem?_eq_getElem hlt; rw [this] at h; simpa using h
      simp [hlt, hx]
    · have hj' : ¬ j = i := fun e => hj e.symm
      simp [hj, hj']

theorem modifyAt_length (l : List Status) (i : Nat) (f : Status → Status) : (modifyAt l i f).length = l.length := by
  unfold modifyAt; cases l[i]? <;> simp

theorem getD_eq (l : List Status) (i : Nat) (d : Status) : l.getD i d = (l[i]?).getD d := by
  simp [List.getD_eq_getElem?_getD]

/-- A peer contributes to the reservation counter of piece `i`. -/
def counted (i : Nat) (p : MPeer) : Bool := p.pieceIndex = some i && !p.choked

def countOn (ps : List MPeer) (i : Nat) : Nat := ps.countP (counted i)

theorem findPeer_some {s : MState} {a : Nat} {p : MPeer} (h : findPeer s a = some p) : p ∈ s.peers ∧ p.addr = a := by
  unfold findPeer at h
  exact ⟨List.mem_of_find?_eq_some h, by simpa using List.find?_some h⟩

theorem findPeer_none {s : MState} {a : Nat} (h : findPeer s a = none) : ∀ p ∈ s.peers, p.addr ≠ a := by
  unfold findPeer at h
  intro p hp
  have := List.find?_eq_none.mp h p hp
  simpa using this

/-- Replacing the record with address `q.addr` changes a count by exactly the difference of the two records. -/
theorem countP_setPeer (ps : List MPeer) (hnd : (ps.map (·.addr)).Nodup) (p q : MPeer) (hp : p ∈ ps)
    (hq : q.addr = p.addr) (P : MPeer → Bool) :
    (ps.map (fun x => if x.addr = q.addr then q else x)).countP P + (if P p then 1 else 0)
      = ps.countP P + (if P q then 1 else 0) := by
  induction ps with
  | nil => simp at hp
  | cons x xs ih =>
    simp only [List.map_cons, List.nodup_cons] at hnd
    simp only [List.mem_cons] at hp
    simp only [List.map_cons, List.countP_cons]
    by_cases hx : x.addr = q.addr
    · -- x is the record being replaced; nothing else in xs has this address
      have hxp : x = p := by
        rcases hp with rfl | hp
        · rfl
        · exfalso; apply hnd.1; rw [hx, hq]; exact List.mem_map_of_mem hp
      subst hxp
      have hrest' : xs.map (fun y => if y.addr = q.addr then q else y) = xs := by
        have : ∀ y ∈ xs, (if y.addr = q.addr then q else y) = y := by
          intro y hy
          have : y.addr ≠ q.addr := by
            intro e; apply hnd.1; rw [hx, ← e]; exact List.mem_map_of_mem hy
          simp [this]
        calc xs.map (fun y => if y.addr = q.addr then q else y) = xs.map id := List.map_congr_left this
          _ = xs := List.map_id _
      simp only [hx, if_true, hrest']
      omega
    · have hpx : p ∈ xs := by
        rcases hp with rfl | hp
        · exact absurd hq.symm hx
        · exact hp
      have := ih hnd.2 hpx
      simp only [hx, if_false]
      omega

theorem setPeer_addrs (s : MState) (p q : MPeer) (hq : q.addr = p.addr) :
    (setPeer s q).map (·.addr) = s.peers.map (·.addr) := by
  unfold setPeer
  rw [List.map_map]
  apply List.map_congr_left
  intro x _
  simp only [Function.comp]
  split
  · rename_i h; rw [h]
  · rfl

theorem mem_setPeer (s : MState) (q x : MPeer) (h : x ∈ setPeer s q) :
    x = q ∨ (x ∈ s.peers ∧ x.addr ≠ q.addr) := by
  unfold setPeer at h
  obtain ⟨y, hy, rfl⟩ := List.mem_map.mp h
  by_cases hya : y.addr = q.addr
  · left; simp [hya]
  · right; simp [hya, hy]

end Rdest.Swarm
