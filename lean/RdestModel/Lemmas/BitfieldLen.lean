/-
  Which steps of a connection task can send `RecvBitfield bs`: only `handle_bitfield`, after `Bitfield::validate`
  (`bs.len() == ceil(pieces_num / 8)`); and `Bitfield::to_vec(pieces_num)` of such bytes yields exactly `pieces_num` bits.
  Same shape as Lemmas/NoCancel.lean and Lemmas/HaveRange.lean.
-/
import RdestModel.Lemmas.HaveRange
import RdestModel.Lemmas.Bitfield
set_option linter.unusedSimpArgs false
set_option linter.unusedVariables false
namespace Rdest.Swarm
open Rdest Rdest.Wire Rdest.Gen Rdest.Swarm.Loop

def NB (n : Nat) (o : List HOut) : Prop := ∀ bs, HOut.cmd (Cmd.recvBitfield bs) ∈ o → bs.length = bytesNumH n

@[simp] theorem nb_nil (n : Nat) : NB n [] := by simp [NB]
@[simp] theorem nb_append_iff (n : Nat) (a b : List HOut) : NB n (a ++ b) ↔ NB n a ∧ NB n b := by
  simp only [NB, List.mem_append]
  constructor
  · intro h; exact ⟨fun i hi => h i (Or.inl hi), fun i hi => h i (Or.inr hi)⟩
  · intro ⟨h1, h2⟩ i hi; rcases hi with hi | hi
    · exact h1 i hi
    · exact h2 i hi
@[simp] theorem nb_cons_iff (n : Nat) (x : HOut) (l : List HOut) :
    NB n (x :: l) ↔ (∀ bs, x = HOut.cmd (Cmd.recvBitfield bs) → bs.length = bytesNumH n) ∧ NB n l := by
  simp only [NB, List.mem_cons]
  constructor
  · intro h; exact ⟨fun i hi => h i (Or.inl hi.symm), fun i hi => h i (Or.inr hi)⟩
  · intro ⟨h1, h2⟩ i hi; rcases hi with hi | hi
    · exact h1 i hi.symm
    · exact h2 i hi
@[simp] theorem nb_map_have (n : Nat) (l : List Nat) : NB n (l.map fun i => HOut.write (Msg.haveP i)) := by
  simp [NB]

@[simp] theorem nb_sendRequest (n : Nat) (s : HState) : NB n (sendRequest s).2 := by
  unfold sendRequest
  split
  · split <;> simp
  · simp

@[simp] theorem nb_newPieceRequest (n : Nat) (s : HState) (i : Bool) (rd : ReqData) : NB n (newPieceRequest s i rd).2 := by
  simp only [newPieceRequest]
  cases i <;> simp

set_option hygiene false in
macro "nb_crack" : tactic =>
  `(tactic| (repeat' (split at h)
             all_goals first
               | (simp only [Option.some.injEq, Prod.mk.injEq] at h; obtain ⟨_, rfl, _⟩ := h; simp)
               | cases h))

theorem nb_pieceFinishReply (n : Nat) (s : HState) (rep : Rep) (s' : HState) (o : List HOut) (b : Bool)
    (h : pieceFinishReply s rep = some (s', o, b)) : NB n o := by
  unfold pieceFinishReply at h
  nb_crack

theorem nb_onHandshake (n : Nat) (s : HState) (ih pid : Bytes) (rep : Rep) (s' : HState) (o : List HOut) (c : Cont)
    (h : onHandshake s ih pid rep = some (s', o, c)) : NB n o := by
  rcases onHandshake_cases s ih pid rep s' o c h with ⟨_, _, rfl, _⟩ | ⟨_, _, _, _, bs, rfl⟩ | ⟨_, _, _, _, rfl⟩ <;> simp

theorem nb_onUnchoke (n : Nat) (s : HState) (rep : Rep) (s' : HState) (o : List HOut) (c : Cont)
    (h : onUnchoke s rep = some (s', o, c)) : NB n o := by
  unfold onUnchoke at h
  nb_crack

theorem nb_onNotInterested (n : Nat) (s : HState) (rep : Rep) (s' : HState) (o : List HOut) (c : Cont)
    (h : onNotInterested s rep = some (s', o, c)) : NB n o := by
  unfold onNotInterested at h
  nb_crack

theorem nb_onHave (n : Nat) (s : HState) (i : Nat) (rep : Rep) (s' : HState) (o : List HOut) (c : Cont)
    (h : onHave s i rep = some (s', o, c)) : NB n o := by
  unfold onHave at h
  nb_crack

theorem nb_onBitfield (s : HState) (bs : Bytes) (rep : Rep) (s' : HState) (o : List HOut) (c : Cont)
    (h : onBitfield s bs rep = some (s', o, c)) : NB s.piecesNum o := by
  unfold onBitfield at h
  split at h
  · simp only [Option.some.injEq, Prod.mk.injEq] at h; obtain ⟨_, rfl, _⟩ := h; simp
  · rename_i hlen
    simp only [ne_eq, Decidable.not_not] at hlen
    repeat' split at h
    all_goals first
      | (simp only [Option.some.injEq, Prod.mk.injEq] at h; obtain ⟨_, rfl, _⟩ := h; simp; first | exact hlen | (split <;> simp))
      | cases h

theorem nb_consult (n : Nat) (disk : Bytes → Option Bytes) (s : HState) (idx : Nat) (rep : Rep) (s1 : HState) (o : List HOut) (f : Bool)
    (h : consultRequest disk s idx rep = some (s1, o, f)) : NB n o := by
  unfold consultRequest at h
  nb_crack

@[simp] theorem nb_serve (n : Nat) (s1 : HState) (idx b l : Nat) : NB n (serveRequest s1 idx b l).1 := by
  unfold serveRequest
  repeat' split
  all_goals simp

theorem nb_onRequest (n : Nat) (disk : Bytes → Option Bytes) (s : HState) (idx b l : Nat) (rep : Rep) (s' : HState) (o : List HOut) (c : Cont)
    (h : onRequest disk s idx b l rep = some (s', o, c)) : NB n o := by
  unfold onRequest at h
  split at h
  · cases h
  · rename_i s1 o1 heq
    simp only [Option.some.injEq, Prod.mk.injEq] at h; obtain ⟨_, rfl, _⟩ := h; exact nb_consult n _ _ _ _ _ _ _ heq
  · rename_i s1 o1 heq
    simp only [Option.some.injEq, Prod.mk.injEq] at h; obtain ⟨_, rfl, _⟩ := h
    simp; exact nb_consult n _ _ _ _ _ _ _ heq

theorem nb_onPiece (n : Nat) (sha1 : Bytes → Bytes) (s : HState) (idx b : Nat) (blk : Bytes) (rep : Rep) (s' : HState) (o : List HOut) (c : Cont)
    (h : onPiece sha1 s idx b blk rep = some (s', o, c)) : NB n o := by
  unfold onPiece at h
  split at h
  · simp only [Option.some.injEq, Prod.mk.injEq] at h; obtain ⟨_, rfl, _⟩ := h; simp
  · split at h
    · simp only [Option.some.injEq, Prod.mk.injEq] at h; obtain ⟨_, rfl, _⟩ := h; simp
    · simp only at h
      split at h
      · split at h
        · simp only [Option.some.injEq, Prod.mk.injEq] at h; obtain ⟨_, rfl, _⟩ := h; simp
        · split at h
          · rename_i s2 o2 heq
            simp only [Option.some.injEq, Prod.mk.injEq] at h; obtain ⟨_, rfl, _⟩ := h
            simp; exact nb_pieceFinishReply n _ _ _ _ _ heq
          · rename_i s2 o2 heq
            simp only [Option.some.injEq, Prod.mk.injEq] at h; obtain ⟨_, rfl, _⟩ := h
            simp; exact nb_pieceFinishReply n _ _ _ _ _ heq
          · cases h
      · simp only [Option.some.injEq, Prod.mk.injEq] at h; obtain ⟨_, rfl, _⟩ := h; simp

theorem nb_handleFrame (sha1 : Bytes → Bytes) (disk : Bytes → Option Bytes) (s : HState) (m : Msg) (rep : Rep)
    (s' : HState) (o : List HOut) (c : Cont) (h : handleFrame sha1 disk s m rep = some (s', o, c)) : NB s.piecesNum o := by
  unfold handleFrame at h
  simp only at h
  split at h
  · simp only [Option.some.injEq, Prod.mk.injEq] at h; obtain ⟨_, rfl, _⟩ := h; simp
  · unfold dispatch at h
    cases m with
    | handshake ih pid => exact nb_onHandshake _ _ _ _ _ _ _ _ h
    | keepAlive => simp only [Option.some.injEq, Prod.mk.injEq] at h; obtain ⟨_, rfl, _⟩ := h; simp
    | choke => simp only [Option.some.injEq, Prod.mk.injEq] at h; obtain ⟨_, rfl, _⟩ := h; simp
    | unchoke => exact nb_onUnchoke _ _ _ _ _ _ h
    | interested => simp only [Option.some.injEq, Prod.mk.injEq] at h; obtain ⟨_, rfl, _⟩ := h; simp
    | notInterested => exact nb_onNotInterested _ _ _ _ _ _ h
    | haveP i => exact nb_onHave _ _ _ _ _ _ _ h
    | bitfield bs => have := nb_onBitfield _ _ _ _ _ _ h; exact this
    | request idx b l => exact nb_onRequest _ _ _ _ _ _ _ _ _ _ h
    | piece idx b blk => exact nb_onPiece _ _ _ _ _ _ _ _ _ _ h
    | cancel i b l => simp only [Option.some.injEq, Prod.mk.injEq] at h; obtain ⟨_, rfl, _⟩ := h; simp

/-- A task that sends `RecvBitfield bs` has checked the byte count against its `pieces_num`. -/
theorem recvBitfield_len (sha1 : Bytes → Bytes) (disk : Bytes → Option Bytes) (t : HState) (inp : HIn) (t' : HState)
    (outs : List HOut) (e : Option Bool) (h : hstep sha1 disk t inp = some (t', outs, e)) (bs : Bytes)
    (hm : Cmd.recvBitfield bs ∈ cmdsOf outs) : bs.length = bytesNumH t.piecesNum := by
  rw [mem_cmdsOf] at hm
  cases hal : t.alive with
  | false =>
    simp only [hstep, hal, Bool.not_false, if_true, Option.some.injEq, Prod.mk.injEq] at h
    obtain ⟨_, rfl, _⟩ := h
    simp at hm
  | true =>
    have hg : (!t.alive) = false := by simp [hal]
    cases inp with
    | frame m rep =>
      simp only [hstep, hg, Bool.false_eq_true, if_false] at h
      cases hf : handleFrame sha1 disk t m rep with
      | none => simp [hf] at h
      | some res =>
        obtain ⟨s1, o1, c⟩ := res
        have hnb := nb_handleFrame sha1 disk t m rep s1 o1 c hf
        rw [hf] at h
        cases c <;> simp only [terminate, Option.some.injEq, Prod.mk.injEq] at h <;>
          (obtain ⟨_, rfl, _⟩ := h; exact hnb bs hm)
    | eof => simp only [hstep, hg, Bool.false_eq_true, if_false, terminate, Option.some.injEq, Prod.mk.injEq] at h; rw [← h.2.1] at hm; simp at hm
    | recvErr => simp only [hstep, hg, Bool.false_eq_true, if_false, terminate, Option.some.injEq, Prod.mk.injEq] at h; rw [← h.2.1] at hm; simp at hm
    | start => simp only [hstep, hg, Bool.false_eq_true, if_false, Option.some.injEq, Prod.mk.injEq] at h; rw [← h.2.1] at hm; simp at hm
    | bcState en =>
      simp only [hstep, hg, Bool.false_eq_true, if_false] at h
      split at h <;> (simp only [Option.some.injEq, Prod.mk.injEq] at h; rw [← h.2.1] at hm; simp at hm)
    | tick =>
      simp only [hstep, hg, Bool.false_eq_true, if_false] at h
      split at h <;> (simp only [terminate, Option.some.injEq, Prod.mk.injEq] at h; rw [← h.2.1] at hm; simp at hm)
    | bcHave j rep =>
      have hpf : ∀ s1 s2 o2 b, pieceFinishReply s1 rep = some (s2, o2, b) → ∀ x, HOut.cmd (Cmd.recvBitfield x) ∉ o2 := by
        intro s1 s2 o2 b hh x hx
        -- a piece-finish reply writes requests and interest only
        unfold pieceFinishReply at hh
        have hreq : ∀ (s : HState) (i : Bool) (rd : ReqData), HOut.cmd (Cmd.recvBitfield x) ∉ (newPieceRequest s i rd).2 := by
          intro s i rd hc
          have h0 := nh_newPieceRequest 0 s i rd
          simp only [newPieceRequest, sendRequest] at hc
          cases i <;> (repeat' split at hc) <;> simp at hc
        repeat' split at hh
        all_goals first
          | (simp only [Option.some.injEq, Prod.mk.injEq] at hh; obtain ⟨_, rfl, _⟩ := hh; first | exact hreq _ _ _ hx | simp at hx)
          | cases hh
      simp only [hstep, hg, Bool.false_eq_true, if_false] at h
      cases hrx : t.pieceRx with
      | none =>
        simp only [hrx] at h
        split at h <;> (simp only [Option.some.injEq, Prod.mk.injEq] at h; rw [← h.2.1] at hm; simp at hm)
      | some rx =>
        simp only [hrx] at h
        by_cases hj : rx.index = j
        · simp only [hj, if_true] at h
          cases hpfr : pieceFinishReply { t with pieceRx := none } rep with
          | none => simp only [hpfr] at h; cases h
          | some res =>
            obtain ⟨s2, o2, b⟩ := res
            have hno := hpf _ _ _ _ hpfr bs
            simp only [hpfr] at h
            split at h <;>
              (simp only [Option.some.injEq, Prod.mk.injEq] at h; rw [← h.2.1] at hm; simp at hm
               exact absurd hm hno)
        · simp only [hj, if_false] at h
          split at h <;> (simp only [Option.some.injEq, Prod.mk.injEq] at h; rw [← h.2.1] at hm; simp at hm)

/-! ### `to_vec(pieces_num)` of validated bytes has `pieces_num` bits -/

theorem bitsOfByteFrom_length (k : Nat) (b : UInt8) : (bitsOfByteFrom k b).length = k := by
  induction k generalizing b with
  | zero => rfl
  | succ k ih => simp [bitsOfByteFrom, ih]

theorem flatMap_bits_length (bytes : Bytes) : (bytes.flatMap bitsOfByte).length = 8 * bytes.length := by
  induction bytes with
  | nil => rfl
  | cons x xs ih =>
    simp only [List.flatMap_cons, List.length_append, ih, List.length_cons, bitsOfByte, bitsOfByteFrom_length,
      BITFIELD_BITS_IN_BYTE_val]
    omega

theorem bytesNumH_eq (n : Nat) : bytesNumH n = bytesNum n := by
  unfold bytesNumH bytesNum
  rw [BITFIELD_BITS_IN_BYTE_val]

theorem bytesNum_bound (n : Nat) : n ≤ 8 * bytesNum n := by
  unfold bytesNum
  split
  · rename_i h8; rw [BITFIELD_BITS_IN_BYTE_val] at h8 ⊢; omega
  · rename_i h8; rw [BITFIELD_BITS_IN_BYTE_val] at h8 ⊢; omega

/-- `Bitfield::to_vec(n)` of bytes that passed `Bitfield::validate(n)` succeeds with exactly `n` bits. -/
theorem toVec_of_validated (bs : Bytes) (n : Nat) (h : bs.length = bytesNumH n) :
    ∃ bits, toVec bs n = some bits ∧ bits.length = n := by
  rw [bytesNumH_eq] at h
  refine ⟨(bs.flatMap bitsOfByte).take n, by simp [toVec, h], ?_⟩
  rw [List.length_take, flatMap_bits_length, h]
  exact Nat.min_eq_left (bytesNum_bound n)

end Rdest.Swarm
