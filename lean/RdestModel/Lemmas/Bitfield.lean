/- Helper lemmas about the bitfield packing model (used by Props/C07 and Props/C11). -/
import RdestModel.Wire.Msg
namespace Rdest.Wire
open Rdest Rdest.Gen

theorem byteOfBitsFrom_append_false (l : List Bool) (k idx : Nat) (acc : UInt8) :
    byteOfBitsFrom (l ++ List.replicate k false) idx acc = byteOfBitsFrom l idx acc := by
  induction l generalizing idx acc with
  | nil =>
    induction k generalizing idx with
    | zero => simp [byteOfBitsFrom]
    | succ k ih =>
      have := ih (idx + 1)
      simp [byteOfBitsFrom] at this
      simp [List.replicate_succ, byteOfBitsFrom, this]
  | cons b bs ih => simp [byteOfBitsFrom, ih]

/-- Pad a chunk to eight bits with `false`. -/
def pad8 (l : List Bool) : List Bool := l ++ List.replicate (8 - l.length) false

theorem byteOfBits_pad8 (l : List Bool) : byteOfBits (pad8 l) = byteOfBits l := by
  simp [byteOfBits, pad8, byteOfBitsFrom_append_false]

/-- Exhaustive over the 256 bit patterns of one byte. -/
theorem bits_of_byte_of_bits8 : ∀ b0 b1 b2 b3 b4 b5 b6 b7 : Bool,
    bitsOfByte (byteOfBits [b0, b1, b2, b3, b4, b5, b6, b7]) = [b0, b1, b2, b3, b4, b5, b6, b7] := by
  decide

def specBitByte (b : UInt8) (j : Nat) : Bool := (b.toNat / 2 ^ (7 - j)) % 2 = 1

theorem specBit_of_bits8 : ∀ b0 b1 b2 b3 b4 b5 b6 b7 : Bool,
    (List.range 8).map (specBitByte (byteOfBits [b0, b1, b2, b3, b4, b5, b6, b7])) = [b0, b1, b2, b3, b4, b5, b6, b7] := by
  decide

theorem list8 (l : List Bool) (h : l.length = 8) :
    ∃ b0 b1 b2 b3 b4 b5 b6 b7, l = [b0, b1, b2, b3, b4, b5, b6, b7] := by
  match l, h with
  | [b0, b1, b2, b3, b4, b5, b6, b7], _ => exact ⟨b0, b1, b2, b3, b4, b5, b6, b7, rfl⟩

theorem pad8_length (l : List Bool) (h : l.length ≤ 8) : (pad8 l).length = 8 := by
  simp [pad8]; omega

theorem bitsOfByte_byteOfBits (l : List Bool) (h : l.length ≤ 8) : bitsOfByte (byteOfBits l) = pad8 l := by
  rw [← byteOfBits_pad8]
  obtain ⟨b0, b1, b2, b3, b4, b5, b6, b7, e⟩ := list8 (pad8 l) (pad8_length l h)
  rw [e]; exact bits_of_byte_of_bits8 ..

theorem specBitByte_byteOfBits (l : List Bool) (h : l.length ≤ 8) (j : Nat) (hj : j < 8) :
    specBitByte (byteOfBits l) j = (pad8 l).getD j false := by
  rw [← byteOfBits_pad8]
  obtain ⟨b0, b1, b2, b3, b4, b5, b6, b7, e⟩ := list8 (pad8 l) (pad8_length l h)
  rw [e]
  have := specBit_of_bits8 b0 b1 b2 b3 b4 b5 b6 b7
  have hj' : j = 0 ∨ j = 1 ∨ j = 2 ∨ j = 3 ∨ j = 4 ∨ j = 5 ∨ j = 6 ∨ j = 7 := by omega
  simp [List.range, List.range.loop] at this
  obtain ⟨t0, t1, t2, t3, t4, t5, t6, t7⟩ := this
  rcases hj' with rfl | rfl | rfl | rfl | rfl | rfl | rfl | rfl <;> simp [*]

theorem fromVec_nil : fromVec [] = [] := by
  rw [fromVec]; simp

theorem fromVec_cons (b : Bool) (bs : List Bool) :
    fromVec (b :: bs) = byteOfBits ((b :: bs).take 8) :: fromVec ((b :: bs).drop 8) := by
  rw [fromVec]; simp

theorem fromVec_step (bits : List Bool) (h : bits ≠ []) :
    fromVec bits = byteOfBits (bits.take 8) :: fromVec (bits.drop 8) := by
  cases bits with
  | nil => exact absurd rfl h
  | cons b bs => exact fromVec_cons b bs

end Rdest.Wire

namespace Rdest.Wire
open Rdest Rdest.Gen

theorem flatMap_fromVec (bits : List Bool) :
    ∃ k, k < 8 ∧ (fromVec bits).flatMap bitsOfByte = bits ++ List.replicate k false := by
  induction h : bits.length using Nat.strongRecOn generalizing bits with
  | _ n ih =>
    by_cases hb : bits = []
    · subst hb; exact ⟨0, by omega, by simp [fromVec_nil]⟩
    · rw [fromVec_step bits hb]
      have hlen : 0 < bits.length := List.length_pos_iff.mpr hb
      by_cases h8 : 8 ≤ bits.length
      · obtain ⟨k, hk, e⟩ := ih (bits.length - 8) (by omega) (bits.drop 8) (by simp)
        refine ⟨k, hk, ?_⟩
        rw [List.flatMap_cons, e, bitsOfByte_byteOfBits _ (by simp; omega)]
        have : pad8 (bits.take 8) = bits.take 8 := by
          simp [pad8, List.length_take, Nat.min_eq_left h8]
        rw [this, ← List.append_assoc, List.take_append_drop]
      · have ht : bits.take 8 = bits := List.take_of_length_le (by omega)
        have hd : bits.drop 8 = [] := List.drop_of_length_le (by omega)
        refine ⟨8 - bits.length, by omega, ?_⟩
        rw [ht, hd, fromVec_nil, List.flatMap_cons, bitsOfByte_byteOfBits _ (by omega)]
        simp [pad8]

theorem fromVec_length (bits : List Bool) : (fromVec bits).length = bytesNum bits.length := by
  induction h : bits.length using Nat.strongRecOn generalizing bits with
  | _ n ih =>
    by_cases hb : bits = []
    · subst hb; subst h; simp [fromVec_nil, bytesNum]
    · rw [fromVec_step bits hb]
      have hlen : 0 < bits.length := List.length_pos_iff.mpr hb
      have := ih (bits.length - 8) (by omega) (bits.drop 8) (by simp)
      simp only [List.length_cons, this, List.length_drop]
      simp only [bytesNum, BITFIELD_BITS_IN_BYTE_val]
      subst h
      by_cases h1 : (bits.length - 8) % 8 = 0 <;> by_cases h2 : bits.length % 8 = 0 <;> simp only [h1, h2, if_true, if_false] <;> omega

theorem specBit_fromVec (bits : List Bool) (i : Nat) : specBit (fromVec bits) i = bits.getD i false := by
  induction h : bits.length using Nat.strongRecOn generalizing bits i with
  | _ n ih =>
    by_cases hb : bits = []
    · subst hb; simp [fromVec_nil, specBit]
    · rw [fromVec_step bits hb]
      have hlen : 0 < bits.length := List.length_pos_iff.mpr hb
      by_cases hi : i < 8
      · have h0 : i / 8 = 0 := by omega
        have hm : i % 8 = i := by omega
        simp only [specBit, h0, hm, List.getElem?_cons_zero]
        have := specBitByte_byteOfBits (bits.take 8) (by simp; omega) i hi
        simp only [specBitByte] at this
        rw [this]
        simp only [pad8, List.getD_eq_getElem?_getD]
        by_cases hil : i < bits.length
        · rw [List.getElem?_append_left (by simp; omega)]
          simp [List.getElem?_take, hi]
        · rw [List.getElem?_append_right (by simp; omega)]
          have : bits[i]? = none := by simp; omega
          simp only [this, List.getElem?_replicate]
          split <;> rfl
      · have hq : i / 8 = (i - 8) / 8 + 1 := by omega
        have hm : i % 8 = (i - 8) % 8 := by omega
        have := ih (bits.length - 8) (by omega) (bits.drop 8) (i - 8) (by simp)
        simp only [specBit, hq, hm, List.getElem?_cons_succ] at this ⊢
        rw [this]
        simp only [List.getD_eq_getElem?_getD, List.getElem?_drop]
        congr 2; omega

end Rdest.Wire
