/-
  Which steps of a connection task can send `PieceCancel`: none of the frame handlers does (`nc_handleFrame`), only the
  `SendHave` broadcast for the piece being fetched — so a task that sends it has a `piece_rx` (`pieceCancel_has_rx`),
  which is what the manager's `handle_piece_cancel` takes for granted ("Piece cancelled but not requested").
-/
import RdestModel.Lemmas.Loop
set_option linter.unusedSimpArgs false
set_option linter.unusedVariables false
namespace Rdest.Swarm
open Rdest Rdest.Wire Rdest.Swarm.Loop

def NC (o : List HOut) : Prop := HOut.cmd Cmd.pieceCancel ∉ o

@[simp] theorem nc_nil : NC [] := by simp [NC]
@[simp] theorem nc_append_iff (a b : List HOut) : NC (a ++ b) ↔ NC a ∧ NC b := by
  simp only [NC, List.mem_append, not_or]
@[simp] theorem nc_cons_iff (x : HOut) (l : List HOut) : NC (x :: l) ↔ x ≠ HOut.cmd Cmd.pieceCancel ∧ NC l := by
  simp only [NC, List.mem_cons, not_or]; constructor
  · intro ⟨h1, h2⟩; exact ⟨fun e => h1 e.symm, h2⟩
  · intro ⟨h1, h2⟩; exact ⟨fun e => h1 e.symm, h2⟩
@[simp] theorem nc_map_have (l : List Nat) : NC (l.map fun i => HOut.write (Msg.haveP i)) := by
  simp [NC]

@[simp] theorem nc_sendRequest (s : HState) : NC (sendRequest s).2 := by
  unfold sendRequest
  split
  · split <;> simp
  · simp

@[simp] theorem nc_newPieceRequest (s : HState) (i : Bool) (rd : ReqData) : NC (newPieceRequest s i rd).2 := by
  simp only [newPieceRequest]
  cases i <;> simp

set_option hygiene false in
macro "nc_crack" : tactic =>
  `(tactic| (repeat' (split at h)
             all_goals first
               | (simp only [Option.some.injEq, Prod.mk.injEq] at h; obtain ⟨_, rfl, _⟩ := h; simp)
               | cases h))

theorem nc_pieceFinishReply (s : HState) (rep : Rep) (s' : HState) (o : List HOut) (b : Bool)
    (h : pieceFinishReply s rep = some (s', o, b)) : NC o := by
  unfold pieceFinishReply at h
  nc_crack

theorem nc_onHandshake (s : HState) (ih pid : Bytes) (rep : Rep) (s' : HState) (o : List HOut) (c : Cont)
    (h : onHandshake s ih pid rep = some (s', o, c)) : NC o := by
  rcases onHandshake_cases s ih pid rep s' o c h with ⟨_, _, rfl, _⟩ | ⟨_, _, _, _, bs, rfl⟩ | ⟨_, _, _, _, rfl⟩ <;> simp

theorem nc_onUnchoke (s : HState) (rep : Rep) (s' : HState) (o : List HOut) (c : Cont)
    (h : onUnchoke s rep = some (s', o, c)) : NC o := by
  unfold onUnchoke at h
  nc_crack

theorem nc_onNotInterested (s : HState) (rep : Rep) (s' : HState) (o : List HOut) (c : Cont)
    (h : onNotInterested s rep = some (s', o, c)) : NC o := by
  unfold onNotInterested at h
  nc_crack

theorem nc_onHave (s : HState) (i : Nat) (rep : Rep) (s' : HState) (o : List HOut) (c : Cont)
    (h : onHave s i rep = some (s', o, c)) : NC o := by
  unfold onHave at h
  nc_crack

theorem nc_onBitfield (s : HState) (bs : Bytes) (rep : Rep) (s' : HState) (o : List HOut) (c : Cont)
    (h : onBitfield s bs rep = some (s', o, c)) : NC o := by
  unfold onBitfield at h
  nc_crack

theorem nc_consult (disk : Bytes → Option Bytes) (s : HState) (idx : Nat) (rep : Rep) (s1 : HState) (o : List HOut) (f : Bool)
    (h : consultRequest disk s idx rep = some (s1, o, f)) : NC o := by
  unfold consultRequest at h
  nc_crack

@[simp] theorem nc_serve (s1 : HState) (idx b l : Nat) : NC (serveRequest s1 idx b l).1 := by
  unfold serveRequest
  repeat' split
  all_goals simp

theorem nc_onRequest (disk : Bytes → Option Bytes) (s : HState) (idx b l : Nat) (rep : Rep) (s' : HState) (o : List HOut) (c : Cont)
    (h : onRequest disk s idx b l rep = some (s', o, c)) : NC o := by
  unfold onRequest at h
  split at h
  · cases h
  · rename_i s1 o1 heq
    simp only [Option.some.injEq, Prod.mk.injEq] at h; obtain ⟨_, rfl, _⟩ := h; exact nc_consult _ _ _ _ _ _ _ heq
  · rename_i s1 o1 heq
    simp only [Option.some.injEq, Prod.mk.injEq] at h; obtain ⟨_, rfl, _⟩ := h
    simp; exact nc_consult _ _ _ _ _ _ _ heq

theorem nc_onPiece (sha1 : Bytes → Bytes) (s : HState) (idx b : Nat) (blk : Bytes) (rep : Rep) (s' : HState) (o : List HOut) (c : Cont)
    (h : onPiece sha1 s idx b blk rep = some (s', o, c)) : NC o := by
  unfold onPiece at h
  split at h
  · simp only [Option.some.injEq, Prod.mk.injEq] at h; obtain ⟨_, rfl, _⟩ := h; simp
  · split at h
    · simp only [Option.some.injEq, Prod.mk.injEq] at h; obtain ⟨_, rfl, _⟩ := h; simp
    · simp only at h
      split at h
      · split at h
        · simp only [Option.some.injEq, Prod.mk.injEq] at h; obtain ⟨_, rfl, _⟩ := h; simp
        · split at h
          · rename_i s2 o2 heq
            simp only [Option.some.injEq, Prod.mk.injEq] at h; obtain ⟨_, rfl, _⟩ := h
            simp; exact nc_pieceFinishReply _ _ _ _ _ heq
          · rename_i s2 o2 heq
            simp only [Option.some.injEq, Prod.mk.injEq] at h; obtain ⟨_, rfl, _⟩ := h
            simp; exact nc_pieceFinishReply _ _ _ _ _ heq
          · cases h
      · simp only [Option.some.injEq, Prod.mk.injEq] at h; obtain ⟨_, rfl, _⟩ := h; simp

theorem nc_handleFrame (sha1 : Bytes → Bytes) (disk : Bytes → Option Bytes) (s : HState) (m : Msg) (rep : Rep)
    (s' : HState) (o : List HOut) (c : Cont) (h : handleFrame sha1 disk s m rep = some (s', o, c)) : NC o := by
  unfold handleFrame at h
  simp only at h
  split at h
  · simp only [Option.some.injEq, Prod.mk.injEq] at h; obtain ⟨_, rfl, _⟩ := h; simp
  · unfold dispatch at h
    cases m with
    | handshake ih pid => exact nc_onHandshake _ _ _ _ _ _ _ h
    | keepAlive => simp only [Option.some.injEq, Prod.mk.injEq] at h; obtain ⟨_, rfl, _⟩ := h; simp
    | choke => simp only [Option.some.injEq, Prod.mk.injEq] at h; obtain ⟨_, rfl, _⟩ := h; simp
    | unchoke => exact nc_onUnchoke _ _ _ _ _ h
    | interested => simp only [Option.some.injEq, Prod.mk.injEq] at h; obtain ⟨_, rfl, _⟩ := h; simp
    | notInterested => exact nc_onNotInterested _ _ _ _ _ h
    | haveP i => exact nc_onHave _ _ _ _ _ _ h
    | bitfield bs => exact nc_onBitfield _ _ _ _ _ _ h
    | request idx b l => exact nc_onRequest _ _ _ _ _ _ _ _ _ h
    | piece idx b blk => exact nc_onPiece _ _ _ _ _ _ _ _ _ h
    | cancel i b l => simp only [Option.some.injEq, Prod.mk.injEq] at h; obtain ⟨_, rfl, _⟩ := h; simp

theorem mem_cmdsOf (c : Cmd) (o : List HOut) : c ∈ cmdsOf o ↔ HOut.cmd c ∈ o := by
  simp only [cmdsOf, List.mem_filterMap]
  constructor
  · rintro ⟨x, hx, hc⟩
    cases x <;> simp at hc
    subst hc; exact hx
  · intro h; exact ⟨_, h, rfl⟩

/-- A task that sends `PieceCancel` was fetching a piece. -/
theorem pieceCancel_has_rx (sha1 : Bytes → Bytes) (disk : Bytes → Option Bytes) (t : HState) (inp : HIn) (t' : HState)
    (outs : List HOut) (e : Option Bool) (h : hstep sha1 disk t inp = some (t', outs, e))
    (hm : Cmd.pieceCancel ∈ cmdsOf outs) : ∃ rx, t.pieceRx = some rx := by
  rw [mem_cmdsOf] at hm
  cases hal : t.alive with
  | false =>
    simp only [hstep, hal, Bool.not_false, if_true, Option.some.injEq, Prod.mk.injEq] at h
    obtain ⟨_, rfl, _⟩ := h
    simp at hm
  | true =>
    have hg : (!t.alive) = false := by simp [hal]
    cases inp with
    | frame m rep =>
      simp only [hstep, hg, Bool.false_eq_true, if_false] at h
      cases hf : handleFrame sha1 disk t m rep with
      | none => simp [hf] at h
      | some res =>
        obtain ⟨s1, o1, c⟩ := res
        have hnc := nc_handleFrame sha1 disk t m rep s1 o1 c hf
        rw [hf] at h
        cases c <;> simp only [terminate, Option.some.injEq, Prod.mk.injEq] at h <;>
          (obtain ⟨_, rfl, _⟩ := h; exact absurd hm hnc)
    | eof => simp only [hstep, hg, Bool.false_eq_true, if_false, terminate, Option.some.injEq, Prod.mk.injEq] at h; rw [← h.2.1] at hm; simp at hm
    | recvErr => simp only [hstep, hg, Bool.false_eq_true, if_false, terminate, Option.some.injEq, Prod.mk.injEq] at h; rw [← h.2.1] at hm; simp at hm
    | start => simp only [hstep, hg, Bool.false_eq_true, if_false, Option.some.injEq, Prod.mk.injEq] at h; rw [← h.2.1] at hm; simp at hm
    | bcState en =>
      simp only [hstep, hg, Bool.false_eq_true, if_false] at h
      split at h <;> (simp only [Option.some.injEq, Prod.mk.injEq] at h; rw [← h.2.1] at hm; simp at hm)
    | tick =>
      simp only [hstep, hg, Bool.false_eq_true, if_false] at h
      split at h <;> (simp only [terminate, Option.some.injEq, Prod.mk.injEq] at h; rw [← h.2.1] at hm; simp at hm)
    | bcHave i rep =>
      cases hrx : t.pieceRx with
      | some rx => exact ⟨rx, rfl⟩
      | none =>
        simp only [hstep, hg, Bool.false_eq_true, if_false, hrx] at h
        split at h <;> (simp only [Option.some.injEq, Prod.mk.injEq] at h; rw [← h.2.1] at hm; simp at hm)

end Rdest.Swarm
