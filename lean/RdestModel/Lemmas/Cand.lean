/-
  Helper lemmas about the connection bookkeeping model (`Swarm/Cand.lean`): what `spawn_peer_handler` does to the
  candidate list, the peer records and the ghost history.  Property theorems are in Props/C02 (T5) and Props/C19 (T5).
-/
import RdestModel.Swarm.Cand
set_option linter.unusedSimpArgs false
set_option linter.unusedVariables false
namespace Rdest.Swarm.Book
open Rdest.Swarm

def connected (c : CState) (a : Nat) : Bool := (findPeer c.x.m a).isSome

/-- Ghost invariant: a listed address is still queued, or a connection task was started for it, or it was dropped
    because a connection to that address existed. -/
def Known (c : CState) : Prop := ∀ a ∈ c.listed, a ∈ c.cands ∨ a ∈ c.contacted ∨ a ∈ c.skipped

theorem split_last {l : List Nat} {a : Nat} (h : l.getLast? = some a) : l.dropLast ++ [a] = l := by
  obtain ⟨ys, rfl⟩ := List.getLast?_eq_some_iff.mp h
  simp

theorem mem_dropLast_or_last {l : List Nat} {a b : Nat} (h : l.getLast? = some a) (hb : b ∈ l) :
    b ∈ l.dropLast ∨ b = a := by
  rw [← split_last h] at hb
  simpa using hb

@[simp] theorem spawnOne_cands (c : CState) : (spawnOne c).cands = c.cands.dropLast := by
  unfold spawnOne
  split
  · rename_i h; simp [List.getLast?_eq_none_iff.mp h]
  · split <;> rfl

@[simp] theorem spawnOne_listed (c : CState) : (spawnOne c).listed = c.listed := by
  unfold spawnOne; split
  · rfl
  · split <;> rfl

@[simp] theorem spawnOne_statuses (c : CState) : (spawnOne c).x.m.statuses = c.x.m.statuses := by
  unfold spawnOne; split
  · rfl
  · split <;> rfl

@[simp] theorem spawnOne_trackerHeld (c : CState) : (spawnOne c).trackerHeld = c.trackerHeld := by
  unfold spawnOne; split
  · rfl
  · split <;> rfl

@[simp] theorem spawnOne_complete (c : CState) : (spawnOne c).complete = c.complete := by
  simp [CState.complete]

@[simp] theorem spawnOne_np (c : CState) : (spawnOne c).np = c.np := by
  simp [CState.np]

theorem spawnOne_known (c : CState) (h : Known c) : Known (spawnOne c) := by
  intro b hb
  rw [spawnOne_listed] at hb
  have hk := h b hb
  unfold spawnOne
  split
  · exact hk
  · rename_i a ha
    split
    · rcases hk with hk | hk | hk
      · rcases mem_dropLast_or_last ha hk with h1 | h1
        · exact Or.inl h1
        · right; right; simp [h1]
      · exact Or.inr (Or.inl hk)
      · right; right; simp [hk]
    · rcases hk with hk | hk | hk
      · rcases mem_dropLast_or_last ha hk with h1 | h1
        · exact Or.inl h1
        · right; left; simp [h1]
      · right; left; simp [hk]
      · exact Or.inr (Or.inr hk)

/-- Peer records only grow in `spawn_peer_handler`. -/
theorem spawnOne_keeps_connected (c : CState) (b : Nat) (h : connected c b = true) : connected (spawnOne c) b = true := by
  unfold spawnOne
  split
  · exact h
  · split
    · exact h
    · simp only [connected, findPeer, List.find?_cons] at h ⊢
      split
      · rfl
      · exact h

/-- The address taken from the list has a connection afterwards: the one that existed, or the new task's. -/
theorem spawnOne_connects_last (c : CState) (a : Nat) (ha : c.cands.getLast? = some a) : connected (spawnOne c) a = true := by
  unfold spawnOne
  rw [ha]
  simp only
  split
  · rename_i h; exact h
  · simp [connected, findPeer, List.find?_cons]

@[simp] theorem spawnN_listed (n : Nat) (c : CState) : (spawnN n c).listed = c.listed := by
  induction n generalizing c with
  | zero => rfl
  | succ n ih => simp [spawnN, ih]

@[simp] theorem spawnN_statuses (n : Nat) (c : CState) : (spawnN n c).x.m.statuses = c.x.m.statuses := by
  induction n generalizing c with
  | zero => rfl
  | succ n ih => simp [spawnN, ih]

theorem spawnN_known (n : Nat) (c : CState) (h : Known c) : Known (spawnN n c) := by
  induction n generalizing c with
  | zero => exact h
  | succ n ih => exact ih _ (spawnOne_known c h)

theorem spawnN_keeps_connected (n : Nat) (c : CState) (b : Nat) (h : connected c b = true) : connected (spawnN n c) b = true := by
  induction n generalizing c with
  | zero => exact h
  | succ n ih => exact ih _ (spawnOne_keeps_connected c b h)

theorem dropLast_eq_take' (l : List Nat) : l.dropLast = l.take (l.length - 1) := by
  rw [List.dropLast_eq_take]

theorem spawnN_cands (n : Nat) (c : CState) : (spawnN n c).cands = c.cands.take (c.cands.length - n) := by
  induction n generalizing c with
  | zero => simp [spawnN]
  | succ n ih =>
    simp only [spawnN]
    rw [ih, spawnOne_cands, dropLast_eq_take', List.take_take]
    congr 1
    simp only [List.length_take]
    omega

/-- Every address among the last `n` candidates has a connection after `n` calls of `spawn_peer_handler`. -/
theorem spawnN_connects (n : Nat) (c : CState) (a : Nat) (ha : a ∈ c.cands.drop (c.cands.length - n)) :
    connected (spawnN n c) a = true := by
  induction n generalizing c with
  | zero => simp at ha
  | succ n ih =>
    simp only [spawnN]
    cases hl : c.cands.getLast? with
    | none =>
      have : c.cands = [] := List.getLast?_eq_none_iff.mp hl
      simp [this] at ha
    | some z =>
      have hsplit : c.cands.dropLast ++ [z] = c.cands := split_last hl
      by_cases haz : a = z
      · subst haz
        exact spawnN_keeps_connected n _ a (spawnOne_connects_last c a hl)
      · apply ih
        rw [spawnOne_cands]
        have hlen : c.cands.length = c.cands.dropLast.length + 1 := by
          conv => lhs; rw [← hsplit]
          simp
        rw [← hsplit] at ha
        rw [List.drop_append] at ha
        simp only [List.length_append, List.length_singleton, List.mem_append] at ha
        rcases ha with ha | ha
        · have : c.cands.dropLast.length + 1 - (n + 1) = c.cands.dropLast.length - n := by omega
          rw [this] at ha
          exact ha
        · have := List.mem_of_mem_drop ha
          simp at this
          exact absurd this haz

end Rdest.Swarm.Book
