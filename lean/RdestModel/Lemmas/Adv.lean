/-
  Which steps of the connection-task model write `Have` / `Bitfield` frames and which change the fields the C11
  monitor mirrors (`choked`, `msgBuff`).  Used by Props/C11 (`C11_trace`).
-/
import RdestModel.Lemmas.Handler
import RdestModel.Swarm.Preds
set_option linter.unusedSimpArgs false
set_option linter.unusedVariables false
namespace Rdest.Swarm
open Rdest Rdest.Wire Rdest.Gen

def hvsO (o : List HOut) : List Nat := o.filterMap fun | .write (.haveP i) => some i | _ => none
def bfsO (o : List HOut) : List Bytes := o.filterMap fun | .write (.bitfield b) => some b | _ => none
def wrO (o : List HOut) : List Msg := o.filterMap fun | .write m => some m | _ => none
def cmO (o : List HOut) : List Cmd := o.filterMap fun | .cmd c => some c | _ => none

theorem writes_obs (sha1 : Bytes → Bytes) (o : List HOut) : writes (o.filterMap (obsOf sha1)) = wrO o := by
  induction o with
  | nil => rfl
  | cons x xs ih =>
    cases x with
    | write m => simp only [List.filterMap_cons, obsOf, writes, wrO] at ih ⊢; rw [ih]
    | cmd c => simp only [List.filterMap_cons, obsOf, writes, wrO] at ih ⊢; exact ih
    | save h d => simp only [List.filterMap_cons, obsOf, writes, wrO] at ih ⊢; exact ih
    | load h => simp only [List.filterMap_cons, obsOf, writes, wrO] at ih ⊢; exact ih

theorem cmds_obs (sha1 : Bytes → Bytes) (o : List HOut) : cmds (o.filterMap (obsOf sha1)) = cmO o := by
  induction o with
  | nil => rfl
  | cons x xs ih =>
    cases x with
    | write m => simp only [List.filterMap_cons, obsOf, cmds, cmO] at ih ⊢; exact ih
    | cmd c => simp only [List.filterMap_cons, obsOf, cmds, cmO] at ih ⊢; rw [ih]
    | save h d => simp only [List.filterMap_cons, obsOf, cmds, cmO] at ih ⊢; exact ih
    | load h => simp only [List.filterMap_cons, obsOf, cmds, cmO] at ih ⊢; exact ih

theorem hvs_wr (o : List HOut) : (wrO o).filterMap (fun | .haveP i => some i | _ => none) = hvsO o := by
  induction o with
  | nil => rfl
  | cons x xs ih =>
    cases x with
    | write m => cases m <;> simp only [wrO, hvsO, List.filterMap_cons] at ih ⊢ <;> first | exact ih | rw [ih]
    | cmd c => simp only [wrO, hvsO, List.filterMap_cons] at ih ⊢; exact ih
    | save h d => simp only [wrO, hvsO, List.filterMap_cons] at ih ⊢; exact ih
    | load h => simp only [wrO, hvsO, List.filterMap_cons] at ih ⊢; exact ih

theorem bfs_wr (o : List HOut) : (wrO o).filterMap (fun | .bitfield b => some b | _ => none) = bfsO o := by
  induction o with
  | nil => rfl
  | cons x xs ih =>
    cases x with
    | write m => cases m <;> simp only [wrO, bfsO, List.filterMap_cons] at ih ⊢ <;> first | exact ih | rw [ih]
    | cmd c => simp only [wrO, bfsO, List.filterMap_cons] at ih ⊢; exact ih
    | save h d => simp only [wrO, bfsO, List.filterMap_cons] at ih ⊢; exact ih
    | load h => simp only [wrO, bfsO, List.filterMap_cons] at ih ⊢; exact ih

theorem haveWrites_obs (sha1 : Bytes → Bytes) (o : List HOut) : haveWrites (o.filterMap (obsOf sha1)) = hvsO o := by
  unfold haveWrites; rw [writes_obs]; exact hvs_wr o

theorem bitfieldWrites_obs (sha1 : Bytes → Bytes) (o : List HOut) : bitfieldWrites (o.filterMap (obsOf sha1)) = bfsO o := by
  unfold bitfieldWrites; rw [writes_obs]; exact bfs_wr o

theorem hvsO_append (a b : List HOut) : hvsO (a ++ b) = hvsO a ++ hvsO b := by simp [hvsO, List.filterMap_append]
theorem bfsO_append (a b : List HOut) : bfsO (a ++ b) = bfsO a ++ bfsO b := by simp [bfsO, List.filterMap_append]
theorem wrO_append (a b : List HOut) : wrO (a ++ b) = wrO a ++ wrO b := by simp [wrO, List.filterMap_append]
theorem cmO_append (a b : List HOut) : cmO (a ++ b) = cmO a ++ cmO b := by simp [cmO, List.filterMap_append]

/-- No `Have`, no `Bitfield` among the outputs. -/
def Quiet (o : List HOut) : Prop := hvsO o = [] ∧ bfsO o = []

theorem quiet_nil : Quiet [] := ⟨rfl, rfl⟩

theorem quiet_append {a b : List HOut} (ha : Quiet a) (hb : Quiet b) : Quiet (a ++ b) := by
  unfold Quiet at *
  rw [hvsO_append, bfsO_append, ha.1, ha.2, hb.1, hb.2]; exact ⟨rfl, rfl⟩

/-- The two fields the monitor mirrors are unchanged. -/
def Keep (s s' : HState) : Prop := s'.choked = s.choked ∧ s'.msgBuff = s.msgBuff

theorem keep_refl (s : HState) : Keep s s := ⟨rfl, rfl⟩
theorem keep_trans {a b c : HState} (h1 : Keep a b) (h2 : Keep b c) : Keep a c :=
  ⟨h2.1.trans h1.1, h2.2.trans h1.2⟩

theorem sendRequest_adv (s : HState) : Keep s (sendRequest s).1 ∧ Quiet (sendRequest s).2 := by
  unfold sendRequest
  split
  · split
    · exact ⟨⟨rfl, rfl⟩, ⟨rfl, rfl⟩⟩
    · exact ⟨⟨rfl, rfl⟩, ⟨rfl, rfl⟩⟩
  · exact ⟨⟨rfl, rfl⟩, ⟨rfl, rfl⟩⟩

theorem newPieceRequest_adv (s : HState) (i : Bool) (rd : ReqData) :
    Keep s (newPieceRequest s i rd).1 ∧ Quiet (newPieceRequest s i rd).2 := by
  unfold newPieceRequest
  simp only
  have h0 : Keep s { s with pieceRx := some (newRx rd) } := ⟨rfl, rfl⟩
  have h1 := sendRequest_adv { s with pieceRx := some (newRx rd) }
  have h2 := sendRequest_adv (sendRequest { s with pieceRx := some (newRx rd) }).1
  refine ⟨keep_trans h0 (keep_trans h1.1 h2.1), ?_⟩
  have hq0 : Quiet (if i = true then [HOut.write Msg.interested] else []) := by
    cases i <;> exact ⟨rfl, rfl⟩
  exact quiet_append (quiet_append hq0 h1.2) h2.2

theorem pieceFinishReply_adv (s : HState) (rep : Rep) (s' : HState) (o : List HOut) (b : Bool)
    (h : pieceFinishReply s rep = some (s', o, b)) : Keep s s' ∧ Quiet o := by
  unfold pieceFinishReply at h
  split at h
  · simp only [Option.some.injEq, Prod.mk.injEq] at h
    obtain ⟨h1, h2, _⟩ := h
    rw [← h1, ← h2]; exact newPieceRequest_adv s false _
  · cases h; exact ⟨⟨rfl, rfl⟩, ⟨rfl, rfl⟩⟩
  · cases h; exact ⟨⟨rfl, rfl⟩, ⟨rfl, rfl⟩⟩
  · cases h; exact ⟨⟨rfl, rfl⟩, ⟨rfl, rfl⟩⟩
  · cases h

theorem consultRequest_adv (disk : Bytes → Option Bytes) (s : HState) (idx : Nat) (rep : Rep)
    (s1 : HState) (o1 : List HOut) (b1 : Bool) (h : consultRequest disk s idx rep = some (s1, o1, b1)) :
    Keep s s1 ∧ Quiet o1 := by
  unfold consultRequest at h
  split at h
  · split at h
    · split at h
      · cases h; exact ⟨⟨rfl, rfl⟩, ⟨rfl, rfl⟩⟩
      · cases h; exact ⟨⟨rfl, rfl⟩, ⟨rfl, rfl⟩⟩
    · cases h; exact ⟨⟨rfl, rfl⟩, ⟨rfl, rfl⟩⟩
    · cases h
  · cases h; exact ⟨⟨rfl, rfl⟩, ⟨rfl, rfl⟩⟩

theorem serveRequest_adv (s : HState) (idx b l : Nat) : Quiet (serveRequest s idx b l).1 := by
  unfold serveRequest
  split
  · exact ⟨rfl, rfl⟩
  · split
    · exact ⟨rfl, rfl⟩
    · split
      · exact ⟨rfl, rfl⟩
      · split
        · exact ⟨rfl, rfl⟩
        · exact ⟨rfl, rfl⟩

theorem onPiece_adv (sha1 : Bytes → Bytes) (s : HState) (idx b : Nat) (blk : Bytes) (rep : Rep)
    (s' : HState) (o : List HOut) (c : Cont) (h : onPiece sha1 s idx b blk rep = some (s', o, c)) :
    Keep s s' ∧ Quiet o := by
  simp only [onPiece] at h
  split at h
  · cases h; exact ⟨⟨rfl, rfl⟩, ⟨rfl, rfl⟩⟩
  · split at h
    · cases h; exact ⟨⟨rfl, rfl⟩, ⟨rfl, rfl⟩⟩
    · split at h
      · split at h
        · cases h; exact ⟨⟨rfl, rfl⟩, ⟨rfl, rfl⟩⟩
        · split at h
          · rename_i s2 o2 hpf
            cases h
            obtain ⟨hk, hq⟩ := pieceFinishReply_adv _ _ _ _ _ hpf
            exact ⟨keep_trans (b := { s with pieceRx := none }) ⟨rfl, rfl⟩ hk, quiet_append ⟨rfl, rfl⟩ hq⟩
          · rename_i s2 o2 hpf
            cases h
            obtain ⟨hk, hq⟩ := pieceFinishReply_adv _ _ _ _ _ hpf
            exact ⟨keep_trans (b := { s with pieceRx := none }) ⟨rfl, rfl⟩ hk, quiet_append ⟨rfl, rfl⟩ hq⟩
          · cases h
      · cases h
        obtain ⟨hk, hq⟩ := sendRequest_adv { s with pieceRx := some _ }
        exact ⟨keep_trans (b := { s with pieceRx := some _ }) ⟨rfl, rfl⟩ hk, hq⟩

/-- Every per-message handler other than handshake, choke and unchoke: no `Have`/`Bitfield` written, the mirrored
    fields unchanged. -/
theorem dispatch_adv (sha1 : Bytes → Bytes) (disk : Bytes → Option Bytes) (s : HState) (m : Msg) (rep : Rep)
    (hnh : isHandshake m = false) (hnc : m ≠ .choke) (hnu : m ≠ .unchoke)
    (s' : HState) (o : List HOut) (c : Cont) (h : dispatch sha1 disk s m rep = some (s', o, c)) :
    Keep s s' ∧ Quiet o := by
  cases m with
  | handshake ih pid => simp [isHandshake] at hnh
  | choke => exact absurd rfl hnc
  | unchoke => exact absurd rfl hnu
  | keepAlive => simp only [dispatch] at h; cases h; exact ⟨⟨rfl, rfl⟩, ⟨rfl, rfl⟩⟩
  | interested => simp only [dispatch] at h; cases h; exact ⟨⟨rfl, rfl⟩, ⟨rfl, rfl⟩⟩
  | cancel i b l => simp only [dispatch] at h; cases h; exact ⟨⟨rfl, rfl⟩, ⟨rfl, rfl⟩⟩
  | notInterested =>
    simp only [dispatch, onNotInterested] at h
    split at h
    · cases h; exact ⟨⟨rfl, rfl⟩, ⟨rfl, rfl⟩⟩
    · cases h; exact ⟨⟨rfl, rfl⟩, ⟨rfl, rfl⟩⟩
    · cases h
  | haveP i =>
    simp only [dispatch, onHave] at h
    split at h
    · cases h; exact ⟨⟨rfl, rfl⟩, ⟨rfl, rfl⟩⟩
    · split at h
      · cases h
        obtain ⟨hk, hq⟩ := newPieceRequest_adv s true _
        exact ⟨hk, quiet_append ⟨rfl, rfl⟩ hq⟩
      · cases h; exact ⟨⟨rfl, rfl⟩, ⟨rfl, rfl⟩⟩
      · cases h; exact ⟨⟨rfl, rfl⟩, ⟨rfl, rfl⟩⟩
      · cases h
  | bitfield bs =>
    simp only [dispatch, onBitfield] at h
    split at h
    · cases h; exact ⟨⟨rfl, rfl⟩, ⟨rfl, rfl⟩⟩
    · split at h
      · rename_i u i
        cases h
        refine ⟨⟨rfl, rfl⟩, ?_⟩
        cases u <;> cases i <;> exact ⟨rfl, rfl⟩
      · cases h
  | request idx b l =>
    simp only [dispatch, onRequest] at h
    split at h
    · cases h
    · rename_i s1 o1 hcr
      cases h
      exact consultRequest_adv disk s idx rep _ _ _ hcr
    · rename_i s1 o1 hcr
      cases h
      obtain ⟨hk, hq⟩ := consultRequest_adv disk s idx rep _ _ _ hcr
      exact ⟨hk, quiet_append hq (serveRequest_adv _ idx b l)⟩
  | piece idx b blk =>
    simp only [dispatch] at h
    exact onPiece_adv sha1 s idx b blk rep s' o c h

theorem hvsO_flush (l : List Nat) : hvsO (l.map fun i => HOut.write (.haveP i)) = l := by
  induction l with
  | nil => rfl
  | cons x xs ih => simp only [List.map_cons, hvsO, List.filterMap_cons] at ih ⊢; rw [ih]

theorem bfsO_flush (l : List Nat) : bfsO (l.map fun i => HOut.write (.haveP i)) = [] := by
  induction l with
  | nil => rfl
  | cons x xs ih => simp only [List.map_cons, bfsO, List.filterMap_cons] at ih ⊢; exact ih

theorem wrO_flush (l : List Nat) : wrO (l.map fun i => HOut.write (.haveP i)) = l.map .haveP := by
  induction l with
  | nil => rfl
  | cons x xs ih => simp only [List.map_cons, wrO, List.filterMap_cons] at ih ⊢; rw [ih]

/-- `handle_unchoke`, precisely: the flush, the command, and then nothing that announces. -/
theorem onUnchoke_adv (s : HState) (rep : Rep) (s' : HState) (o : List HOut) (c : Cont)
    (h : onUnchoke s rep = some (s', o, c)) :
    s'.msgBuff = [] ∧ s'.choked = false ∧ s'.alive = s.alive ∧
    ∃ rest, o = s.msgBuff.map (fun i => HOut.write (.haveP i)) ++ [.cmd .recvUnchoke] ++ rest ∧ Quiet rest := by
  unfold onUnchoke at h
  simp only at h
  split at h
  · rename_i rd wi
    cases h
    obtain ⟨hk, hq⟩ := newPieceRequest_adv { s with choked := false, msgBuff := [] } wi rd
    obtain ⟨_, ha, _⟩ := newPieceRequest_core { s with choked := false, msgBuff := [] } wi rd
    exact ⟨hk.2, hk.1, ha, _, rfl, hq⟩
  · cases h; exact ⟨rfl, rfl, rfl, _, rfl, ⟨rfl, rfl⟩⟩
  · cases h; exact ⟨rfl, rfl, rfl, [], by simp, ⟨rfl, rfl⟩⟩
  · cases h


end Rdest.Swarm
