/- Helper lemmas about `parseImpl` (src/frame.rs model): consumed counts, prefix stability, bounds. -/
import RdestModel.Wire.Frame
set_option linter.unusedSimpArgs false
namespace Rdest.Wire
open Rdest Rdest.Gen

theorem u32Head_append (body x : Bytes) (h : 4 ≤ body.length) : u32Head (body ++ x) = u32Head body := by
  match body, h with
  | a :: b :: c :: d :: t, _ => simp [u32Head]

theorem u32Head_drop_append (body x : Bytes) (k : Nat) (h : k + 4 ≤ body.length) :
    u32Head ((body ++ x).drop k) = u32Head (body.drop k) := by
  rw [List.drop_append_of_le_length (by omega)]
  exact u32Head_append _ _ (by simp; omega)

/-- What an outcome promises about the buffer it was computed from. -/
def OutOk (len : Nat) : ParseOut → Prop
  | .frame _ n => 0 < n ∧ n ≤ len
  | .skip n => 0 < n ∧ n ≤ len
  | .incomplete => len < MSG_LEN_SIZE + MAX_FRAME_SIZE
  | .fatal => True

theorem parseFixed_ok (m : Msg) (w L len : Nat) (h5 : 5 ≤ len) (hw : w = 1) : OutOk len (parseFixed m w L) := by
  unfold parseFixed; split <;> simp [OutOk]; omega

theorem parseSized_ok (m : Msg) (w L av : Nat) (hL : L ≤ MAX_FRAME_SIZE) : OutOk av (parseSized m w L av) := by
  unfold parseSized
  split
  · simp [OutOk]
  · split
    · simp [OutOk] at *; omega
    · simp [OutOk] at *; omega

theorem parseVar_ok (m : Msg) (mn L av : Nat) (hL : L ≤ MAX_FRAME_SIZE) : OutOk av (parseVar m mn L av) := by
  unfold parseVar
  split
  · simp [OutOk]
  · split
    · simp [OutOk] at *; omega
    · simp [OutOk] at *; omega

theorem parseUnknown_ok (L av : Nat) (hL : L ≤ MAX_FRAME_SIZE) : OutOk av (parseUnknown L av) := by
  unfold parseUnknown
  split
  · simp [OutOk] at *; omega
  · simp [OutOk] at *; omega

theorem parseHandshake_ok (buf : Bytes) (av : Nat) : OutOk av (parseHandshake buf av) := by
  unfold parseHandshake
  split
  · simp [OutOk] at *; omega
  · split
    · simp [OutOk] at *; omega
    · simp [OutOk]

theorem parseById_ok (id L av : Nat) (body : Bytes) (hL : L ≤ MAX_FRAME_SIZE) (h5 : 5 ≤ av) :
    OutOk av (parseById id L av body) := by
  unfold parseById
  repeat' split
  all_goals first
    | exact parseFixed_ok _ _ _ _ h5 (by simp)
    | exact parseSized_ok _ _ _ _ hL
    | exact parseVar_ok _ _ _ _ hL
    | exact parseUnknown_ok _ _ hL

theorem parseBody_ok (a : UInt8) (L : Nat) (buf tl : Bytes) (hbuf : buf.length = 4 + tl.length) :
    OutOk buf.length (parseBody a L buf tl) := by
  unfold parseBody
  split
  · simp [OutOk]; omega
  · split
    · simp [OutOk] at *; omega
    · rename_i idb body
      simp only [List.length_cons] at hbuf
      have hav : MSG_LEN_SIZE + MSG_ID_SIZE + body.length = buf.length := by simp; omega
      simp only [hav]
      split
      · exact parseHandshake_ok _ _
      · split
        · simp [OutOk]
        · exact parseById_ok _ _ _ _ (by omega) (by omega)

/-- Every outcome of `Frame::parse` respects the buffer: consumed counts are positive and within the buffer
    (so `BytesMut::advance` cannot panic), and `Incomplete` is only reported for fewer than
    `4 + MAX_FRAME_SIZE` buffered bytes. -/
theorem parseImpl_ok (b : Bytes) : OutOk b.length (parseImpl b) := by
  unfold parseImpl
  split
  · rename_i a b' c d tl
    exact parseBody_ok a _ _ tl (by simp; omega)
  · rename_i hne
    simp only [OutOk, MSG_LEN_SIZE_val, MAX_FRAME_SIZE_val]
    match b, hne with
    | [], _ => simp
    | [_], _ => simp
    | [_, _], _ => simp
    | [_, _, _], _ => simp
    | a :: b' :: c :: d :: tl, hne => exact absurd rfl (hne a b' c d tl)


/-! ### Prefix stability: appending bytes never changes a decided outcome -/

def Stable : ParseOut → ParseOut → Prop
  | .frame m n, o => o = .frame m n
  | .skip n, o => o = .skip n
  | .fatal, o => o = .fatal
  | .incomplete, _ => True

theorem stable_refl (o : ParseOut) : Stable o o := by cases o <;> simp [Stable]

theorem parseFixed_stable (m : Msg) (w L : Nat) : Stable (parseFixed m w L) (parseFixed m w L) := stable_refl _

theorem parseSized_stable (m m' : Msg) (w L av k : Nat) (hm : L = w → ¬ av < MSG_LEN_SIZE + L → m' = m) :
    Stable (parseSized m w L av) (parseSized m' w L (av + k)) := by
  unfold parseSized
  split
  · simp [Stable]
  · split
    · simp [Stable]
    · rename_i h1 h2
      have h3 : ¬ (av + k < MSG_LEN_SIZE + L) := by omega
      have h4 : L = w := by omega
      rw [if_neg h3]
      simp [Stable, hm h4 h2]

theorem parseVar_stable (m m' : Msg) (mn L av k : Nat) (hm : ¬ L < mn → ¬ av < MSG_LEN_SIZE + L → m' = m) :
    Stable (parseVar m mn L av) (parseVar m' mn L (av + k)) := by
  unfold parseVar
  split
  · simp [Stable]
  · split
    · simp [Stable]
    · rename_i h1 h2
      have h3 : ¬ (av + k < MSG_LEN_SIZE + L) := by omega
      rw [if_neg h3]
      simp [Stable, hm h1 h2]

theorem parseUnknown_stable (L av k : Nat) : Stable (parseUnknown L av) (parseUnknown L (av + k)) := by
  unfold parseUnknown
  split
  · simp [Stable]
  · rename_i h
    have h3 : ¬ (av + k < MSG_LEN_SIZE + L) := by omega
    rw [if_neg h3]
    simp [Stable]

theorem parseById_stable (id L : Nat) (body x : Bytes) :
    Stable (parseById id L (5 + body.length) body) (parseById id L (5 + body.length + x.length) (body ++ x)) := by
  unfold parseById
  repeat' split
  all_goals first
    | exact parseFixed_stable _ _ _
    | exact parseUnknown_stable _ _ _
    | (apply parseSized_stable; intro hL h; simp only [MSG_LEN_SIZE_val] at h
       simp only [HAVE_LEN_val, REQUEST_LEN_val, CANCEL_LEN_val] at hL
       rw [u32Head_append _ _ (by omega)]
       try rw [u32Head_drop_append _ _ 4 (by omega), u32Head_drop_append _ _ 8 (by omega)])
    | (apply parseVar_stable; intro hL h; simp only [MSG_LEN_SIZE_val] at h
       simp only [MSG_ID_SIZE_val, PIECE_MIN_LEN_val] at hL ⊢
       first
         | rw [List.take_append_of_le_length (by omega)]
         | (rw [u32Head_append _ _ (by omega), u32Head_drop_append _ _ 4 (by omega),
              List.drop_append_of_le_length (by omega), List.take_append_of_le_length (by simp; omega)]))

theorem parseHandshake_stable (buf x : Bytes) (av : Nat) (hav : av = buf.length) :
    Stable (parseHandshake buf av) (parseHandshake (buf ++ x) (av + x.length)) := by
  unfold parseHandshake
  by_cases h : av < HANDSHAKE_FULL_SIZE
  · rw [if_pos h]; simp [Stable]
  · rw [if_neg h]
    have h68 : 68 ≤ buf.length := by simp at h; omega
    have h3 : ¬ (av + x.length < HANDSHAKE_FULL_SIZE) := by omega
    rw [if_neg h3]
    have e1 : List.take HANDSHAKE_PROTOCOL_ID.length (List.drop 1 (buf ++ x))
        = List.take HANDSHAKE_PROTOCOL_ID.length (List.drop 1 buf) := by
      rw [List.drop_append_of_le_length (by omega), List.take_append_of_le_length (by simp; omega)]
    rw [e1]
    by_cases hp : List.take HANDSHAKE_PROTOCOL_ID.length (List.drop 1 buf) = HANDSHAKE_PROTOCOL_ID
    · rw [if_pos hp, if_pos hp]
      have e2 : ∀ k n, k + n ≤ 68 → List.take n (List.drop k (buf ++ x)) = List.take n (List.drop k buf) := by
        intro k n hk
        rw [List.drop_append_of_le_length (by omega), List.take_append_of_le_length (by simp; omega)]
      simp only [Stable]
      rw [e2 _ _ (by simp), e2 _ _ (by simp)]
    · rw [if_neg hp, if_neg hp]; simp [Stable]

theorem parseBody_stable (a : UInt8) (L : Nat) (buf tl x : Bytes) (hbuf : buf.length = 4 + tl.length) :
    Stable (parseBody a L buf tl) (parseBody a L (buf ++ x) (tl ++ x)) := by
  unfold parseBody
  split
  · simp [Stable]
  · cases tl with
    | nil => simp [Stable]
    | cons idb body =>
      simp only [List.cons_append, List.length_cons, List.length_append] at hbuf ⊢
      split
      · have := parseHandshake_stable buf x (MSG_LEN_SIZE + MSG_ID_SIZE + body.length) (by simp; omega)
        simpa [Nat.add_assoc] using this
      · split
        · simp [Stable]
        · have := parseById_stable idb.toNat L body x
          simpa [Nat.add_assoc] using this

/-- Appending bytes to the buffer never changes a frame, a skip or a fatal verdict. -/
theorem parseImpl_stable (b x : Bytes) : Stable (parseImpl b) (parseImpl (b ++ x)) := by
  match b with
  | a :: b' :: c :: d :: tl =>
    simp only [parseImpl, List.cons_append]
    exact parseBody_stable a _ _ tl x (by simp; omega)
  | [] => simp [parseImpl, Stable]
  | [_] => simp [parseImpl, Stable]
  | [_, _] => simp [parseImpl, Stable]
  | [_, _, _] => simp [parseImpl, Stable]

end Rdest.Wire
