/-
  Which steps of a connection task can send `RecvHave i`: only `handle_have`, after `Have::validate` (`i < pieces_num`).
  Same shape as Lemmas/NoCancel.lean.
-/
import RdestModel.Lemmas.NoCancel
set_option linter.unusedSimpArgs false
set_option linter.unusedVariables false
namespace Rdest.Swarm
open Rdest Rdest.Wire Rdest.Swarm.Loop

def NH (n : Nat) (o : List HOut) : Prop := ∀ i, HOut.cmd (Cmd.recvHave i) ∈ o → i < n

@[simp] theorem nh_nil (n : Nat) : NH n [] := by simp [NH]
@[simp] theorem nh_append_iff (n : Nat) (a b : List HOut) : NH n (a ++ b) ↔ NH n a ∧ NH n b := by
  simp only [NH, List.mem_append]
  constructor
  · intro h; exact ⟨fun i hi => h i (Or.inl hi), fun i hi => h i (Or.inr hi)⟩
  · intro ⟨h1, h2⟩ i hi; rcases hi with hi | hi
    · exact h1 i hi
    · exact h2 i hi
@[simp] theorem nh_cons_iff (n : Nat) (x : HOut) (l : List HOut) :
    NH n (x :: l) ↔ (∀ i, x = HOut.cmd (Cmd.recvHave i) → i < n) ∧ NH n l := by
  simp only [NH, List.mem_cons]
  constructor
  · intro h; exact ⟨fun i hi => h i (Or.inl hi.symm), fun i hi => h i (Or.inr hi)⟩
  · intro ⟨h1, h2⟩ i hi; rcases hi with hi | hi
    · exact h1 i hi.symm
    · exact h2 i hi
@[simp] theorem nh_map_have (n : Nat) (l : List Nat) : NH n (l.map fun i => HOut.write (Msg.haveP i)) := by
  simp [NH]

@[simp] theorem nh_sendRequest (n : Nat) (s : HState) : NH n (sendRequest s).2 := by
  unfold sendRequest
  split
  · split <;> simp
  · simp

@[simp] theorem nh_newPieceRequest (n : Nat) (s : HState) (i : Bool) (rd : ReqData) : NH n (newPieceRequest s i rd).2 := by
  simp only [newPieceRequest]
  cases i <;> simp

set_option hygiene false in
macro "nh_crack" : tactic =>
  `(tactic| (repeat' (split at h)
             all_goals first
               | (simp only [Option.some.injEq, Prod.mk.injEq] at h; obtain ⟨_, rfl, _⟩ := h; simp)
               | cases h))

theorem nh_pieceFinishReply (n : Nat) (s : HState) (rep : Rep) (s' : HState) (o : List HOut) (b : Bool)
    (h : pieceFinishReply s rep = some (s', o, b)) : NH n o := by
  unfold pieceFinishReply at h
  nh_crack

theorem nh_onHandshake (n : Nat) (s : HState) (ih pid : Bytes) (rep : Rep) (s' : HState) (o : List HOut) (c : Cont)
    (h : onHandshake s ih pid rep = some (s', o, c)) : NH n o := by
  rcases onHandshake_cases s ih pid rep s' o c h with ⟨_, _, rfl, _⟩ | ⟨_, _, _, _, bs, rfl⟩ | ⟨_, _, _, _, rfl⟩ <;> simp

theorem nh_onUnchoke (n : Nat) (s : HState) (rep : Rep) (s' : HState) (o : List HOut) (c : Cont)
    (h : onUnchoke s rep = some (s', o, c)) : NH n o := by
  unfold onUnchoke at h
  nh_crack

theorem nh_onNotInterested (n : Nat) (s : HState) (rep : Rep) (s' : HState) (o : List HOut) (c : Cont)
    (h : onNotInterested s rep = some (s', o, c)) : NH n o := by
  unfold onNotInterested at h
  nh_crack

theorem nh_onHave (s : HState) (i : Nat) (rep : Rep) (s' : HState) (o : List HOut) (c : Cont)
    (h : onHave s i rep = some (s', o, c)) : NH s.piecesNum o := by
  unfold onHave at h
  split at h
  · simp only [Option.some.injEq, Prod.mk.injEq] at h; obtain ⟨_, rfl, _⟩ := h; simp
  · rename_i hlt
    repeat' split at h
    all_goals first
      | (simp only [Option.some.injEq, Prod.mk.injEq] at h; obtain ⟨_, rfl, _⟩ := h; simp; omega)
      | cases h

theorem nh_onBitfield (n : Nat) (s : HState) (bs : Bytes) (rep : Rep) (s' : HState) (o : List HOut) (c : Cont)
    (h : onBitfield s bs rep = some (s', o, c)) : NH n o := by
  unfold onBitfield at h
  nh_crack

theorem nh_consult (n : Nat) (disk : Bytes → Option Bytes) (s : HState) (idx : Nat) (rep : Rep) (s1 : HState) (o : List HOut) (f : Bool)
    (h : consultRequest disk s idx rep = some (s1, o, f)) : NH n o := by
  unfold consultRequest at h
  nh_crack

@[simp] theorem nh_serve (n : Nat) (s1 : HState) (idx b l : Nat) : NH n (serveRequest s1 idx b l).1 := by
  unfold serveRequest
  repeat' split
  all_goals simp

theorem nh_onRequest (n : Nat) (disk : Bytes → Option Bytes) (s : HState) (idx b l : Nat) (rep : Rep) (s' : HState) (o : List HOut) (c : Cont)
    (h : onRequest disk s idx b l rep = some (s', o, c)) : NH n o := by
  unfold onRequest at h
  split at h
  · cases h
  · rename_i s1 o1 heq
    simp only [Option.some.injEq, Prod.mk.injEq] at h; obtain ⟨_, rfl, _⟩ := h; exact nh_consult n _ _ _ _ _ _ _ heq
  · rename_i s1 o1 heq
    simp only [Option.some.injEq, Prod.mk.injEq] at h; obtain ⟨_, rfl, _⟩ := h
    simp; exact nh_consult n _ _ _ _ _ _ _ heq

theorem nh_onPiece (n : Nat) (sha1 : Bytes → Bytes) (s : HState) (idx b : Nat) (blk : Bytes) (rep : Rep) (s' : HState) (o : List HOut) (c : Cont)
    (h : onPiece sha1 s idx b blk rep = some (s', o, c)) : NH n o := by
  unfold onPiece at h
  split at h
  · simp only [Option.some.injEq, Prod.mk.injEq] at h; obtain ⟨_, rfl, _⟩ := h; simp
  · split at h
    · simp only [Option.some.injEq, Prod.mk.injEq] at h; obtain ⟨_, rfl, _⟩ := h; simp
    · simp only at h
      split at h
      · split at h
        · simp only [Option.some.injEq, Prod.mk.injEq] at h; obtain ⟨_, rfl, _⟩ := h; simp
        · split at h
          · rename_i s2 o2 heq
            simp only [Option.some.injEq, Prod.mk.injEq] at h; obtain ⟨_, rfl, _⟩ := h
            simp; exact nh_pieceFinishReply n _ _ _ _ _ heq
          · rename_i s2 o2 heq
            simp only [Option.some.injEq, Prod.mk.injEq] at h; obtain ⟨_, rfl, _⟩ := h
            simp; exact nh_pieceFinishReply n _ _ _ _ _ heq
          · cases h
      · simp only [Option.some.injEq, Prod.mk.injEq] at h; obtain ⟨_, rfl, _⟩ := h; simp

theorem nh_handleFrame (sha1 : Bytes → Bytes) (disk : Bytes → Option Bytes) (s : HState) (m : Msg) (rep : Rep)
    (s' : HState) (o : List HOut) (c : Cont) (h : handleFrame sha1 disk s m rep = some (s', o, c)) : NH s.piecesNum o := by
  unfold handleFrame at h
  simp only at h
  split at h
  · simp only [Option.some.injEq, Prod.mk.injEq] at h; obtain ⟨_, rfl, _⟩ := h; simp
  · unfold dispatch at h
    cases m with
    | handshake ih pid => exact nh_onHandshake _ _ _ _ _ _ _ _ h
    | keepAlive => simp only [Option.some.injEq, Prod.mk.injEq] at h; obtain ⟨_, rfl, _⟩ := h; simp
    | choke => simp only [Option.some.injEq, Prod.mk.injEq] at h; obtain ⟨_, rfl, _⟩ := h; simp
    | unchoke => exact nh_onUnchoke _ _ _ _ _ _ h
    | interested => simp only [Option.some.injEq, Prod.mk.injEq] at h; obtain ⟨_, rfl, _⟩ := h; simp
    | notInterested => exact nh_onNotInterested _ _ _ _ _ _ h
    | haveP i => have := nh_onHave _ _ _ _ _ _ h; exact this
    | bitfield bs => exact nh_onBitfield _ _ _ _ _ _ _ h
    | request idx b l => exact nh_onRequest _ _ _ _ _ _ _ _ _ _ h
    | piece idx b blk => exact nh_onPiece _ _ _ _ _ _ _ _ _ _ h
    | cancel i b l => simp only [Option.some.injEq, Prod.mk.injEq] at h; obtain ⟨_, rfl, _⟩ := h; simp

/-- A task that sends `RecvHave i` has checked the index against its `pieces_num`. -/
theorem recvHave_in_range (sha1 : Bytes → Bytes) (disk : Bytes → Option Bytes) (t : HState) (inp : HIn) (t' : HState)
    (outs : List HOut) (e : Option Bool) (h : hstep sha1 disk t inp = some (t', outs, e)) (i : Nat)
    (hm : Cmd.recvHave i ∈ cmdsOf outs) : i < t.piecesNum := by
  rw [mem_cmdsOf] at hm
  cases hal : t.alive with
  | false =>
    simp only [hstep, hal, Bool.not_false, if_true, Option.some.injEq, Prod.mk.injEq] at h
    obtain ⟨_, rfl, _⟩ := h
    simp at hm
  | true =>
    have hg : (!t.alive) = false := by simp [hal]
    cases inp with
    | frame m rep =>
      simp only [hstep, hg, Bool.false_eq_true, if_false] at h
      cases hf : handleFrame sha1 disk t m rep with
      | none => simp [hf] at h
      | some res =>
        obtain ⟨s1, o1, c⟩ := res
        have hnh := nh_handleFrame sha1 disk t m rep s1 o1 c hf
        rw [hf] at h
        cases c <;> simp only [terminate, Option.some.injEq, Prod.mk.injEq] at h <;>
          (obtain ⟨_, rfl, _⟩ := h; exact hnh i hm)
    | eof => simp only [hstep, hg, Bool.false_eq_true, if_false, terminate, Option.some.injEq, Prod.mk.injEq] at h; rw [← h.2.1] at hm; simp at hm
    | recvErr => simp only [hstep, hg, Bool.false_eq_true, if_false, terminate, Option.some.injEq, Prod.mk.injEq] at h; rw [← h.2.1] at hm; simp at hm
    | start => simp only [hstep, hg, Bool.false_eq_true, if_false, Option.some.injEq, Prod.mk.injEq] at h; rw [← h.2.1] at hm; simp at hm
    | bcState en =>
      simp only [hstep, hg, Bool.false_eq_true, if_false] at h
      split at h <;> (simp only [Option.some.injEq, Prod.mk.injEq] at h; rw [← h.2.1] at hm; simp at hm)
    | tick =>
      simp only [hstep, hg, Bool.false_eq_true, if_false] at h
      split at h <;> (simp only [terminate, Option.some.injEq, Prod.mk.injEq] at h; rw [← h.2.1] at hm; simp at hm)
    | bcHave j rep =>
      have hpf : ∀ s1 s2 o2 b, pieceFinishReply s1 rep = some (s2, o2, b) → NH 0 o2 := fun s1 s2 o2 b hh => nh_pieceFinishReply 0 s1 rep s2 o2 b hh
      simp only [hstep, hg, Bool.false_eq_true, if_false] at h
      cases hrx : t.pieceRx with
      | none =>
        simp only [hrx] at h
        split at h <;> (simp only [Option.some.injEq, Prod.mk.injEq] at h; rw [← h.2.1] at hm; simp at hm)
      | some rx =>
        simp only [hrx] at h
        by_cases hj : rx.index = j
        · simp only [hj, if_true] at h
          cases hpfr : pieceFinishReply { t with pieceRx := none } rep with
          | none => simp only [hpfr] at h; cases h
          | some res =>
            obtain ⟨s2, o2, b⟩ := res
            have hno := hpf _ _ _ _ hpfr
            simp only [hpfr] at h
            split at h <;>
              (simp only [Option.some.injEq, Prod.mk.injEq] at h; rw [← h.2.1] at hm; simp at hm
               exact absurd (hno i hm) (Nat.not_lt_zero _))
        · simp only [hj, if_false] at h
          split at h <;> (simp only [Option.some.injEq, Prod.mk.injEq] at h; rw [← h.2.1] at hm; simp at hm)

end Rdest.Swarm
