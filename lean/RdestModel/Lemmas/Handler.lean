/- Frame-preservation lemmas about the connection-task model (used by Props C01, C08–C11, C20). -/
import RdestModel.Swarm.Trace
set_option linter.unusedSimpArgs false
set_option linter.unusedVariables false
namespace Rdest.Swarm
open Rdest Rdest.Wire Rdest.Gen

/-- Fields that only `handle_frame`'s first lines, the timer and `terminate` touch. -/
def SameCore (s s' : HState) : Prop :=
  s'.keepAlive = s.keepAlive ∧ s'.alive = s.alive ∧ s'.infoHash = s.infoHash ∧ s'.ownId = s.ownId ∧
  s'.piecesNum = s.piecesNum ∧ s'.hsDone = s.hsDone ∧ s'.peerId = s.peerId

theorem sameCore_refl (s : HState) : SameCore s s := ⟨rfl, rfl, rfl, rfl, rfl, rfl, rfl⟩

theorem sendRequest_core (s : HState) : SameCore s (sendRequest s).1 := by
  unfold sendRequest
  split
  · split <;> exact ⟨rfl, rfl, rfl, rfl, rfl, rfl, rfl⟩
  · exact sameCore_refl s

theorem sameCore_trans {a b c : HState} (h1 : SameCore a b) (h2 : SameCore b c) : SameCore a c := by
  obtain ⟨a1, a2, a3, a4, a5, a6, a7⟩ := h1
  obtain ⟨b1, b2, b3, b4, b5, b6, b7⟩ := h2
  exact ⟨b1.trans a1, b2.trans a2, b3.trans a3, b4.trans a4, b5.trans a5, b6.trans a6, b7.trans a7⟩

theorem newPieceRequest_core (s : HState) (i : Bool) (rd : ReqData) : SameCore s (newPieceRequest s i rd).1 := by
  unfold newPieceRequest
  have h0 : SameCore s { s with pieceRx := some (newRx rd) } := ⟨rfl, rfl, rfl, rfl, rfl, rfl, rfl⟩
  exact sameCore_trans h0 (sameCore_trans (sendRequest_core _) (sendRequest_core _))

theorem pieceFinishReply_core (s : HState) (rep : Rep) (s' : HState) (o : List HOut) (b : Bool)
    (h : pieceFinishReply s rep = some (s', o, b)) : SameCore s s' := by
  unfold pieceFinishReply at h
  split at h
  · simp only [Option.some.injEq, Prod.mk.injEq] at h; rw [← h.1]; exact newPieceRequest_core s false _
  all_goals first
    | (simp only [Option.some.injEq, Prod.mk.injEq] at h; rw [← h.1]; exact sameCore_refl s)
    | exact absurd h (by simp)


end Rdest.Swarm

namespace Rdest.Swarm
open Rdest Rdest.Wire Rdest.Gen

/-- Closing tactic for the leaves of the case analyses below: the equation `h` either is impossible or
    identifies the result with a record update / a helper's result. -/
macro "core_leaf" h:ident : tactic =>
  `(tactic| (cases $h:ident <;> first
      | exact ⟨rfl, rfl, rfl, rfl, rfl, rfl, rfl⟩
      | exact newPieceRequest_core _ _ _
      | exact sameCore_trans (b := _) ⟨rfl, rfl, rfl, rfl, rfl, rfl, rfl⟩ (newPieceRequest_core _ _ _)
      | exact sameCore_trans (b := _) ⟨rfl, rfl, rfl, rfl, rfl, rfl, rfl⟩ (sendRequest_core _)))

theorem consultRequest_core (disk : Bytes → Option Bytes) (s : HState) (idx : Nat) (rep : Rep)
    (s1 : HState) (o1 : List HOut) (b1 : Bool) (h : consultRequest disk s idx rep = some (s1, o1, b1)) :
    SameCore s s1 := by
  unfold consultRequest at h
  repeat' split at h
  all_goals core_leaf h

/-- Every per-message handler leaves the core fields alone. -/
theorem dispatch_core (sha1 : Bytes → Bytes) (disk : Bytes → Option Bytes) (s : HState) (m : Msg) (rep : Rep)
    (hnh : isHandshake m = false)
    (s' : HState) (o : List HOut) (c : Cont) (h : dispatch sha1 disk s m rep = some (s', o, c)) : SameCore s s' := by
  cases m with
  | handshake ih pid => simp [isHandshake] at hnh
  | keepAlive => simp only [dispatch] at h; core_leaf h
  | choke => simp only [dispatch] at h; core_leaf h
  | unchoke =>
    simp only [dispatch, onUnchoke] at h
    split at h
    all_goals core_leaf h
  | interested => simp only [dispatch] at h; core_leaf h
  | notInterested =>
    simp only [dispatch, onNotInterested] at h
    split at h
    all_goals core_leaf h
  | haveP i =>
    simp only [dispatch, onHave] at h
    repeat' split at h
    all_goals core_leaf h
  | bitfield bs =>
    simp only [dispatch, onBitfield] at h
    repeat' split at h
    all_goals core_leaf h
  | request idx b l =>
    simp only [dispatch, onRequest] at h
    split at h
    · cases h
    · rename_i s1 o1 hcr; cases h; exact consultRequest_core disk s idx rep _ _ _ hcr
    · rename_i s1 o1 hcr; cases h; exact consultRequest_core disk s idx rep _ _ _ hcr
  | piece idx b blk =>
    simp only [dispatch, onPiece] at h
    split at h
    · core_leaf h
    · split at h
      · core_leaf h
      · split at h
        · split at h
          · core_leaf h
          · split at h
            · rename_i s2 o2 hpf
              cases h
              exact sameCore_trans (b := { s with pieceRx := none }) ⟨rfl, rfl, rfl, rfl, rfl, rfl, rfl⟩ (pieceFinishReply_core _ _ _ _ _ hpf)
            · rename_i s2 o2 hpf
              cases h
              exact sameCore_trans (b := { s with pieceRx := none }) ⟨rfl, rfl, rfl, rfl, rfl, rfl, rfl⟩ (pieceFinishReply_core _ _ _ _ _ hpf)
            · cases h
        · core_leaf h
  | cancel i b l => simp only [dispatch] at h; core_leaf h

/-- `handle_handshake`: what it can do. -/
theorem onHandshake_cases (s : HState) (ih pid : Bytes) (rep : Rep) (s' : HState) (o : List HOut) (c : Cont)
    (h : onHandshake s ih pid rep = some (s', o, c)) :
    -- rejected: nothing is written, the task ends with an error
    ((ih ≠ s.infoHash ∨ (∃ e, s.peerId = some e ∧ pid ≠ e)) ∧ s' = s ∧ o = [] ∧ c = .endError) ∨
    -- accepted on a connection whose peer id was not known: our handshake, Init, the bitfield
    (ih = s.infoHash ∧ s.peerId = none ∧ s' = { s with peerId := some pid, hsDone := true } ∧ c = .go ∧
      ∃ bs, o = [.write (.handshake s.infoHash s.ownId), .cmd (.init pid), .write (.bitfield bs)]) ∨
    -- accepted where the id was known (and equal): nothing is written
    (ih = s.infoHash ∧ s.peerId = some pid ∧ s' = { s with peerId := some pid, hsDone := true } ∧ c = .go ∧ o = []) := by
  unfold onHandshake at h
  by_cases h1 : ih ≠ s.infoHash
  · rw [if_pos h1] at h; cases h; exact Or.inl ⟨Or.inl h1, rfl, rfl, rfl⟩
  · rw [if_neg h1] at h
    have h1' : ih = s.infoHash := by simpa using h1
    cases hp : s.peerId with
    | none =>
      rw [hp] at h
      simp only [Bool.false_eq_true, if_false, Option.isNone_none, if_true] at h
      cases hi : initHandshake { s with peerId := some pid, hsDone := true } pid rep with
      | none => rw [hi] at h; cases h
      | some oo =>
        rw [hi] at h; cases h
        unfold initHandshake at hi
        cases rep with
        | bitfield bs => simp only [Option.some.injEq] at hi; exact Or.inr (Or.inl ⟨h1', rfl, rfl, rfl, bs, hi.symm⟩)
        | _ => cases hi
    | some e =>
      rw [hp] at h
      by_cases h2 : pid ≠ e
      · have hd : decide (pid ≠ e) = true := decide_eq_true h2
        simp only [hd, if_true] at h; cases h; exact Or.inl ⟨Or.inr ⟨e, rfl, h2⟩, rfl, rfl, rfl⟩
      · have h2' : pid = e := by simpa using h2
        have hd : decide (pid ≠ e) = false := decide_eq_false h2
        simp only [hd, Bool.false_eq_true, if_false, Option.isNone_some] at h
        cases h; subst h2'; exact Or.inr (Or.inr ⟨h1', rfl, rfl, rfl, rfl⟩)

/-- `handle_frame` touches the keep-alive counter only in its first lines, and nothing else of the core. -/
theorem handleFrame_core (sha1 : Bytes → Bytes) (disk : Bytes → Option Bytes) (s : HState) (m : Msg) (rep : Rep)
    (s' : HState) (o : List HOut) (c : Cont) (h : handleFrame sha1 disk s m rep = some (s', o, c)) :
    s'.keepAlive = kaAfter m s.keepAlive ∧ s'.alive = s.alive ∧ s'.infoHash = s.infoHash ∧ s'.ownId = s.ownId ∧
    s'.piecesNum = s.piecesNum := by
  unfold handleFrame at h
  simp only at h
  split at h
  · cases h; exact ⟨rfl, rfl, rfl, rfl, rfl⟩
  · cases hm : isHandshake m with
    | false =>
      obtain ⟨h1, h2, h3, h4, h5, _⟩ := dispatch_core sha1 disk _ m rep hm s' o c h
      exact ⟨h1, h2, h3, h4, h5⟩
    | true =>
      cases m with
      | handshake ih pid =>
        simp only [dispatch] at h
        rcases onHandshake_cases _ ih pid rep s' o c h with ⟨_, rfl, _, _⟩ | ⟨_, _, rfl, _, _⟩ | ⟨_, _, rfl, _, _⟩ <;>
          exact ⟨rfl, rfl, rfl, rfl, rfl⟩
      | _ => simp [isHandshake] at hm

/-- For every input other than timer ticks: the step either continues a live task (`ended = none`) with the
    keep-alive counter reset exactly by non-keep-alive frames, or ends it. -/
def silentAfter (inp : TIn) (k : Nat) : Nat :=
  match inp with
  | .frame m _ _ => kaAfter m k
  | _ => k

theorem hstep_bcHave_core (sha1 : Bytes → Bytes) (d : Bytes → Option Bytes) (s : HState) (halive : s.alive = true)
    (i : Nat) (rep : Rep) (s' : HState) (o : List HOut) (e : Option Bool)
    (h : hstep sha1 d s (.bcHave i rep) = some (s', o, e)) : e = none ∧ SameCore s s' := by
  have hg : (!s.alive) = false := by simp [halive]
  simp only [hstep, hg, Bool.false_eq_true, if_false] at h
  -- the inner cancellation result
  have inner : ∀ (r : Option (HState × List HOut)), (∀ s1 o1, r = some (s1, o1) → SameCore s s1) →
      (match r with
        | none => (none : Option HRes)
        | some (s1, o1) =>
          if s1.choked = true then some ({ s1 with msgBuff := s1.msgBuff ++ [i] }, o1, none)
          else some (s1, o1 ++ [HOut.write (Msg.haveP i)], none)) = some (s', o, e) → e = none ∧ SameCore s s' := by
    intro r hr hm
    cases r with
    | none => cases hm
    | some p =>
      obtain ⟨s1, o1⟩ := p
      have hc := hr s1 o1 rfl
      simp only at hm
      split at hm
      · cases hm; exact ⟨rfl, sameCore_trans hc ⟨rfl, rfl, rfl, rfl, rfl, rfl, rfl⟩⟩
      · cases hm; exact ⟨rfl, hc⟩
  cases hrx : s.pieceRx with
  | none => rw [hrx] at h; exact inner (some (s, [])) (fun s1 o1 e => by cases e; exact sameCore_refl s) h
  | some rx =>
    rw [hrx] at h
    simp only at h
    by_cases hi : rx.index = i
    · simp only [hi, if_true] at h
      cases hpf : pieceFinishReply { s with pieceRx := none } rep with
      | none => rw [hpf] at h; cases h
      | some t =>
        obtain ⟨s2, o2, b2⟩ := t
        rw [hpf] at h
        exact inner (some (s2, _)) (fun s1 o1 e => by
          cases e
          exact sameCore_trans (b := { s with pieceRx := none }) ⟨rfl, rfl, rfl, rfl, rfl, rfl, rfl⟩
            (pieceFinishReply_core _ _ _ _ _ hpf)) h
    · simp only [hi, if_false] at h
      exact inner (some (s, [])) (fun s1 o1 e => by cases e; exact sameCore_refl s) h

theorem tstep_core (sha1 : Bytes → Bytes) (s : HState) (halive : s.alive = true) (inp : TIn)
    (hnt : ∀ k, inp ≠ .ticks k) (s' : HState) (o : List HOut) (e : Option Bool)
    (h : tstep sha1 s inp = some (s', o, e)) :
    (e = none → s'.alive = true ∧ s'.keepAlive = silentAfter inp s.keepAlive) ∧ (e ≠ none → s'.alive = false) := by
  have hg : (!s.alive) = false := by simp [halive]
  cases inp with
  | ticks k => exact absurd rfl (hnt k)
  | start rep =>
    simp only [tstep, hstart, hg, Bool.false_eq_true, if_false] at h
    split at h
    · split at h
      · cases h; exact ⟨fun _ => ⟨halive, rfl⟩, fun c => absurd rfl c⟩
      · cases h
    · cases h; exact ⟨fun _ => ⟨halive, rfl⟩, fun c => absurd rfl c⟩
  | recvErr =>
    simp only [tstep, hstep, hg, Bool.false_eq_true, if_false, terminate] at h
    cases h; exact ⟨fun c => (by cases c), fun _ => rfl⟩
  | eof =>
    simp only [tstep, hstep, hg, Bool.false_eq_true, if_false, terminate] at h
    cases h; exact ⟨fun c => (by cases c), fun _ => rfl⟩
  | bcState en =>
    simp only [tstep, hstep, hg, Bool.false_eq_true, if_false] at h
    split at h <;> cases h <;> exact ⟨fun _ => ⟨halive, rfl⟩, fun c => absurd rfl c⟩
  | bcHave i rep =>
    simp only [tstep] at h
    obtain ⟨he, hc1, hc2, _⟩ := hstep_bcHave_core sha1 _ s halive i rep s' o e h
    subst he
    exact ⟨fun _ => ⟨by rw [hc2]; exact halive, hc1⟩, fun c => absurd rfl c⟩
  | frame m rep d =>
    simp only [tstep, hstep, hg, Bool.false_eq_true, if_false] at h
    cases hf : handleFrame sha1 (diskOf d) s m rep with
    | none => rw [hf] at h; cases h
    | some r =>
      obtain ⟨s1, o1, c⟩ := r
      obtain ⟨hk, ha, _⟩ := handleFrame_core sha1 _ s m rep s1 o1 c hf
      rw [hf] at h
      cases c with
      | go => cases h; exact ⟨fun _ => ⟨by rw [ha]; exact halive, hk⟩, fun c => absurd rfl c⟩
      | endNormal => simp only [terminate] at h; cases h; exact ⟨fun c => (by cases c), fun _ => rfl⟩
      | endError => simp only [terminate] at h; cases h; exact ⟨fun c => (by cases c), fun _ => rfl⟩

end Rdest.Swarm
