/-
  The closed loop of one connection task and the manager (`Swarm/Loop.lean`): the manager's record of the peer follows
  the task. Helper lemmas about the two models, then `linked_step` (own steps) and `linked_env` (steps of other
  connections). Property-level corollaries are in Props/C12 and Props/C01.
-/
import RdestModel.Swarm.Loop
import RdestModel.Lemmas.Manager
import RdestModel.Lemmas.Handler
set_option linter.unusedSimpArgs false
set_option linter.unusedVariables false
namespace Rdest.Swarm.Loop
open Rdest Rdest.Wire Rdest.Swarm

/-! ### The manager's side: what one event does to the record of a peer -/

theorem find_map_update (ps : List MPeer) (a : Nat) (p q : MPeer) (hq : q.addr = a)
    (h : ps.find? (·.addr = a) = some p) :
    (ps.map (fun x => if x.addr = q.addr then q else x)).find? (·.addr = a) = some q := by
  induction ps with
  | nil => simp at h
  | cons x xs ih =>
    simp only [List.map_cons, List.find?_cons] at h ⊢
    by_cases hx : x.addr = a
    · simp [hx, hq]
    · have : ¬ x.addr = q.addr := by rw [hq]; exact hx
      simp only [this, if_false, hx, decide_false] at h ⊢
      exact ih h

theorem findPeer_setPeer (s : MState) (st : List Status) (a : Nat) (p q : MPeer) (hq : q.addr = a)
    (h : findPeer s a = some p) : findPeer { statuses := st, peers := setPeer s q } a = some q := by
  unfold findPeer setPeer at *
  exact find_map_update s.peers a p q hq h

theorem find_map_other (ps : List MPeer) (a : Nat) (q : MPeer) (hq : q.addr ≠ a) :
    (ps.map (fun x => if x.addr = q.addr then q else x)).find? (·.addr = a) = ps.find? (·.addr = a) := by
  induction ps with
  | nil => rfl
  | cons x xs ih =>
    simp only [List.map_cons, List.find?_cons]
    by_cases hx : x.addr = q.addr
    · have hxa : ¬ x.addr = a := by rw [hx]; exact hq
      simp [hx, hq, hxa, ih]
    · simp only [hx, if_false]
      by_cases hxa : x.addr = a
      · simp [hxa]
      · simp [hxa, ih]

theorem findPeer_setPeer_other (s : MState) (st : List Status) (a : Nat) (q : MPeer) (hq : q.addr ≠ a) :
    findPeer { statuses := st, peers := setPeer s q } a = findPeer s a := by
  unfold findPeer setPeer
  exact find_map_other s.peers a q hq

/-- The part of a peer's record the connection task mirrors: the piece it is fetching and whether the peer chokes us. -/
abbrev View := Option Nat × Bool

/-- The piece a reply tells the task to fetch. -/
def rxOfReply : Reply → Option Nat
  | .request c _ => some c
  | _ => none

/-- The view after the manager handled an event of this peer, read off the reply. -/
def viewAfter (v : View) : Ev → Reply → View
  | .choke _, _ => (v.1, true)
  | .unchoke _ _, r => (rxOfReply r, false)
  | .have _ _ _, .request c _ => (some c, v.2)
  | .pieceDone _ _, r => (rxOfReply r, v.2)
  | .pieceCancel _ _, r => (rxOfReply r, v.2)
  | _, _ => v

def evAddr : Ev → Nat
  | .add a _ => a | .choke a => a | .unchoke a _ => a | .interested a => a | .notInterested a _ => a
  | .have a _ _ => a | .bitfield a _ _ => a | .pieceDone a _ => a | .pieceCancel a _ => a | .kill a => a

def isAddOrKill : Ev → Bool
  | .add _ _ => true
  | .kill _ => true
  | _ => false

theorem handlePiece_view (st : List Status) (q : MPeer) (chosen : Option Nat) :
    (handlePiece st q chosen).2.1.addr = q.addr ∧
    (handlePiece st q chosen).2.1.rx = rxOfReply (handlePiece st q chosen).2.2 ∧
    (handlePiece st q chosen).2.1.choked = q.choked ∧
    (∀ y, (handlePiece st q chosen).2.1.rx = some y → (handlePiece st q chosen).2.1.pieceIndex = some y) := by
  unfold handlePiece
  cases chosen with
  | none => cases q.interested <;> exact ⟨rfl, rfl, rfl, fun y hy => by cases hy⟩
  | some c => cases q.choked <;> exact ⟨rfl, rfl, rfl, fun y hy => by first | exact hy | cases hy⟩

/-- An event of peer `a` other than connect/disconnect keeps its record, changed as `viewAfter` says. -/
theorem mstep_view (m m' : MState) (a : Nat) (ev : Ev) (r : Reply) (p : MPeer) (hev : evAddr ev = a)
    (hak : isAddOrKill ev = false) (hp : findPeer m a = some p) (h : mstep m ev = .ok m' r) :
    ∃ p', findPeer m' a = some p' ∧ (p'.rx, p'.choked) = viewAfter (p.rx, p.choked) ev r ∧
      ((∀ y, p.rx = some y → p.pieceIndex = some y) → ∀ y, p'.rx = some y → p'.pieceIndex = some y) := by
  have hpa : p.addr = a := (findPeer_some hp).2
  cases ev with
  | add b n => simp [isAddOrKill] at hak
  | kill b => simp [isAddOrKill] at hak
  | choke b =>
    simp only [evAddr] at hev; subst hev
    simp only [mstep, hp, Out.ok.injEq] at h
    obtain ⟨rfl, rfl⟩ := h
    exact ⟨_, findPeer_setPeer m _ _ p _ hpa hp, rfl, by intro hidx y hy; first | exact hidx y hy | exact hy | cases hy⟩
  | unchoke b chosen =>
    simp only [evAddr] at hev; subst hev
    simp only [mstep, hp] at h
    cases chosen with
    | none =>
      simp only [Out.ok.injEq] at h
      obtain ⟨rfl, rfl⟩ := h
      refine ⟨_, findPeer_setPeer m _ _ p _ hpa hp, ?_, by intro hidx y hy; first | exact hidx y hy | exact hy | cases hy⟩
      cases p.amInterested <;> rfl
    | some c =>
      simp only [Out.ok.injEq] at h
      obtain ⟨rfl, rfl⟩ := h
      exact ⟨_, findPeer_setPeer m _ _ p _ hpa hp, rfl, by intro hidx y hy; first | exact hidx y hy | exact hy | cases hy⟩
  | interested b =>
    simp only [evAddr] at hev; subst hev
    simp only [mstep, hp, Out.ok.injEq] at h
    obtain ⟨rfl, rfl⟩ := h
    exact ⟨_, findPeer_setPeer m _ _ p _ hpa hp, rfl, by intro hidx y hy; first | exact hidx y hy | exact hy | cases hy⟩
  | notInterested b chosen =>
    simp only [evAddr] at hev; subst hev
    simp only [mstep, hp, Out.ok.injEq] at h
    obtain ⟨rfl, rfl⟩ := h
    exact ⟨_, findPeer_setPeer m _ _ p _ hpa hp, rfl, by intro hidx y hy; first | exact hidx y hy | exact hy | cases hy⟩
  | «have» b i chosen =>
    simp only [evAddr] at hev; subst hev
    simp only [mstep, hp] at h
    split at h
    · cases h
    · cases chosen with
      | none =>
        simp only [Out.ok.injEq] at h
        obtain ⟨rfl, rfl⟩ := h
        exact ⟨_, findPeer_setPeer m _ _ p _ hpa hp, rfl, by intro hidx y hy; first | exact hidx y hy | exact hy | cases hy⟩
      | some c =>
        simp only at h
        split at h
        · split at h
          · simp only [Out.ok.injEq] at h
            obtain ⟨rfl, rfl⟩ := h
            exact ⟨_, findPeer_setPeer m _ _ p _ hpa hp, rfl, by intro hidx y hy; first | exact hidx y hy | exact hy | cases hy⟩
          · simp only [Out.ok.injEq] at h
            obtain ⟨rfl, rfl⟩ := h
            exact ⟨_, findPeer_setPeer m _ _ p _ hpa hp, rfl, by intro hidx y hy; first | exact hidx y hy | exact hy | cases hy⟩
        · simp only [Out.ok.injEq] at h
          obtain ⟨rfl, rfl⟩ := h
          exact ⟨_, findPeer_setPeer m _ _ p _ hpa hp, rfl, by intro hidx y hy; first | exact hidx y hy | exact hy | cases hy⟩
  | bitfield b bits chosen =>
    simp only [evAddr] at hev; subst hev
    simp only [mstep, hp] at h
    split at h
    · cases h
    · simp only [Out.ok.injEq] at h
      obtain ⟨rfl, rfl⟩ := h
      exact ⟨_, findPeer_setPeer m _ _ p _ hpa hp, rfl, by intro hidx y hy; first | exact hidx y hy | exact hy | cases hy⟩
  | pieceDone b chosen =>
    simp only [evAddr] at hev; subst hev
    simp only [mstep, hp] at h
    cases hpi : p.pieceIndex with
    | none => simp [hpi] at h
    | some y =>
      simp only [hpi, Out.ok.injEq] at h
      obtain ⟨rfl, rfl⟩ := h
      obtain ⟨h1, h2, h3, h4⟩ := handlePiece_view (modifyAt m.statuses y (fun _ => .have)) { p with rx := none } chosen
      simp only [hpi] at h1 h2 h3 h4
      refine ⟨_, findPeer_setPeer m _ _ p _ (by rw [h1]; exact hpa) hp, ?_, fun _ => h4⟩
      simp only [viewAfter, h2, h3]
  | pieceCancel b chosen =>
    simp only [evAddr] at hev; subst hev
    simp only [mstep, hp] at h
    cases hpi : p.pieceIndex with
    | none => simp [hpi] at h
    | some y =>
      simp only [hpi, Out.ok.injEq] at h
      obtain ⟨rfl, rfl⟩ := h
      obtain ⟨h1, h2, h3, h4⟩ := handlePiece_view (modifyAt m.statuses y decr) { p with rx := none } chosen
      simp only [hpi] at h1 h2 h3 h4
      refine ⟨_, findPeer_setPeer m _ _ p _ (by rw [h1]; exact hpa) hp, ?_, fun _ => h4⟩
      simp only [viewAfter, h2, h3]

theorem find_filter_other (ps : List MPeer) (a b : Nat) (hab : b ≠ a) :
    (ps.filter (fun x => decide (x.addr ≠ b))).find? (·.addr = a) = ps.find? (·.addr = a) := by
  induction ps with
  | nil => rfl
  | cons x xs ih =>
    by_cases hxb : x.addr = b
    · have hxa : ¬ x.addr = a := by rw [hxb]; exact hab
      rw [List.filter_cons_of_neg (by simp [hxb]), List.find?_cons_of_neg (by simp [hxa]), ih]
    · rw [List.filter_cons_of_pos (by simp [hxb])]
      by_cases hxa : x.addr = a
      · rw [List.find?_cons_of_pos (by simp [hxa]), List.find?_cons_of_pos (by simp [hxa])]
      · rw [List.find?_cons_of_neg (by simp [hxa]), List.find?_cons_of_neg (by simp [hxa]), ih]

/-- Whatever another connection does (connect, any command, disconnect), the record of peer `a` stays as it is. -/
theorem mstep_other (m m' : MState) (a : Nat) (ev : Ev) (r : Reply) (hne : evAddr ev ≠ a)
    (h : mstep m ev = .ok m' r) : findPeer m' a = findPeer m a := by
  cases ev with
  | add b n =>
    simp only [evAddr] at hne
    simp only [mstep, Out.ok.injEq] at h
    obtain ⟨rfl, _⟩ := h
    simp only [findPeer, List.find?_cons]
    have : ¬ b = a := hne
    simp only [this, decide_false]
    exact find_filter_other m.peers a b hne
  | kill b =>
    simp only [evAddr] at hne
    simp only [mstep] at h
    cases hp : findPeer m b with
    | none => simp only [hp, Out.ok.injEq] at h; rw [← h.1]
    | some p =>
      simp only [hp, Out.ok.injEq] at h
      obtain ⟨rfl, _⟩ := h
      simp only [findPeer]
      exact find_filter_other m.peers a b hne
  | choke b =>
    simp only [evAddr] at hne
    simp only [mstep] at h
    cases hp : findPeer m b with
    | none => simp [hp] at h
    | some p =>
      have hpa := (findPeer_some hp).2
      simp only [hp, Out.ok.injEq] at h
      obtain ⟨rfl, _⟩ := h
      exact findPeer_setPeer_other m _ a _ (by simp only; rw [hpa]; exact hne)
  | unchoke b chosen =>
    simp only [evAddr] at hne
    simp only [mstep] at h
    cases hp : findPeer m b with
    | none => simp [hp] at h
    | some p =>
      have hpa := (findPeer_some hp).2
      simp only [hp] at h
      cases chosen with
      | none =>
        simp only [Out.ok.injEq] at h
        obtain ⟨rfl, _⟩ := h
        exact findPeer_setPeer_other m _ a _ (by simp only; rw [hpa]; exact hne)
      | some c =>
        simp only [Out.ok.injEq] at h
        obtain ⟨rfl, _⟩ := h
        exact findPeer_setPeer_other m _ a _ (by simp only; rw [hpa]; exact hne)
  | interested b =>
    simp only [evAddr] at hne
    simp only [mstep] at h
    cases hp : findPeer m b with
    | none => simp [hp] at h
    | some p =>
      have hpa := (findPeer_some hp).2
      simp only [hp, Out.ok.injEq] at h
      obtain ⟨rfl, _⟩ := h
      exact findPeer_setPeer_other m _ a _ (by simp only; rw [hpa]; exact hne)
  | notInterested b chosen =>
    simp only [evAddr] at hne
    simp only [mstep] at h
    cases hp : findPeer m b with
    | none => simp [hp] at h
    | some p =>
      have hpa := (findPeer_some hp).2
      simp only [hp, Out.ok.injEq] at h
      obtain ⟨rfl, _⟩ := h
      exact findPeer_setPeer_other m _ a _ (by simp only; rw [hpa]; exact hne)
  | «have» b i chosen =>
    simp only [evAddr] at hne
    simp only [mstep] at h
    cases hp : findPeer m b with
    | none => simp [hp] at h
    | some p =>
      have hpa := (findPeer_some hp).2
      simp only [hp] at h
      split at h
      · cases h
      · cases chosen with
        | none =>
          simp only [Out.ok.injEq] at h
          obtain ⟨rfl, _⟩ := h
          exact findPeer_setPeer_other m _ a _ (by simp only; rw [hpa]; exact hne)
        | some c =>
          simp only at h
          split at h
          · split at h
            · simp only [Out.ok.injEq] at h
              obtain ⟨rfl, _⟩ := h
              exact findPeer_setPeer_other m _ a _ (by simp only; rw [hpa]; exact hne)
            · simp only [Out.ok.injEq] at h
              obtain ⟨rfl, _⟩ := h
              exact findPeer_setPeer_other m _ a _ (by simp only; rw [hpa]; exact hne)
          · simp only [Out.ok.injEq] at h
            obtain ⟨rfl, _⟩ := h
            exact findPeer_setPeer_other m _ a _ (by simp only; rw [hpa]; exact hne)
  | bitfield b bits chosen =>
    simp only [evAddr] at hne
    simp only [mstep] at h
    cases hp : findPeer m b with
    | none => simp [hp] at h
    | some p =>
      have hpa := (findPeer_some hp).2
      simp only [hp] at h
      split at h
      · cases h
      · simp only [Out.ok.injEq] at h
        obtain ⟨rfl, _⟩ := h
        exact findPeer_setPeer_other m _ a _ (by simp only; rw [hpa]; exact hne)
  | pieceDone b chosen =>
    simp only [evAddr] at hne
    simp only [mstep] at h
    cases hp : findPeer m b with
    | none => simp [hp] at h
    | some p =>
      have hpa := (findPeer_some hp).2
      simp only [hp] at h
      cases hpi : p.pieceIndex with
      | none => simp [hpi] at h
      | some y =>
        simp only [hpi, Out.ok.injEq] at h
        obtain ⟨rfl, _⟩ := h
        have h1 := (handlePiece_view (modifyAt m.statuses y (fun _ => .have)) { p with rx := none } chosen).1
        simp only [hpi] at h1
        exact findPeer_setPeer_other m _ a _ (by rw [h1, hpa]; exact hne)
  | pieceCancel b chosen =>
    simp only [evAddr] at hne
    simp only [mstep] at h
    cases hp : findPeer m b with
    | none => simp [hp] at h
    | some p =>
      have hpa := (findPeer_some hp).2
      simp only [hp] at h
      cases hpi : p.pieceIndex with
      | none => simp [hpi] at h
      | some y =>
        simp only [hpi, Out.ok.injEq] at h
        obtain ⟨rfl, _⟩ := h
        have h1 := (handlePiece_view (modifyAt m.statuses y decr) { p with rx := none } chosen).1
        simp only [hpi] at h1
        exact findPeer_setPeer_other m _ a _ (by rw [h1, hpa]; exact hne)

/-! ### The task's side -/

/-- What a view keeps of the piece being fetched: any function of its index and listed hash (the index alone for the link
    with the manager, the pair for `RxListed`). -/
def hviewF {α : Type} (f : Nat → Bytes → α) (t : HState) : Option α × Bool :=
  (t.pieceRx.map (fun rx => f rx.index rx.hash), t.choked)

def rxOfRepF {α : Type} (f : Nat → Bytes → α) : Rep → Option α
  | .req rd _ => some (f rd.index rd.hash)
  | _ => none


@[simp] theorem cmdsOf_nil : cmdsOf [] = [] := rfl
@[simp] theorem cmdsOf_append (a b : List HOut) : cmdsOf (a ++ b) = cmdsOf a ++ cmdsOf b := by
  simp [cmdsOf, List.filterMap_append]
@[simp] theorem cmdsOf_write (m : Msg) (o : List HOut) : cmdsOf (.write m :: o) = cmdsOf o := by simp [cmdsOf]
@[simp] theorem cmdsOf_cmd (c : Cmd) (o : List HOut) : cmdsOf (.cmd c :: o) = c :: cmdsOf o := by simp [cmdsOf]
@[simp] theorem cmdsOf_save (h d : Bytes) (o : List HOut) : cmdsOf (.save h d :: o) = cmdsOf o := by simp [cmdsOf]
@[simp] theorem cmdsOf_load (h : Bytes) (o : List HOut) : cmdsOf (.load h :: o) = cmdsOf o := by simp [cmdsOf]
theorem cmdsOf_map_write (f : α → Msg) (l : List α) : cmdsOf (l.map fun x => HOut.write (f x)) = [] := by
  induction l with
  | nil => rfl
  | cons x xs ih => simp [ih]

theorem sendRequest_viewF {α : Type} (f : Nat → Bytes → α) (s : HState) :
    hviewF f (sendRequest s).1 = hviewF f s ∧ cmdsOf (sendRequest s).2 = [] := by
  unfold sendRequest
  split
  · split
    · exact ⟨by simp_all [hviewF], by simp⟩
    · exact ⟨rfl, rfl⟩
  · exact ⟨rfl, rfl⟩

theorem newPieceRequest_viewF {α : Type} (f : Nat → Bytes → α) (s : HState) (b : Bool) (rd : ReqData) :
    hviewF f (newPieceRequest s b rd).1 = (some (f rd.index rd.hash), s.choked) ∧ cmdsOf (newPieceRequest s b rd).2 = [] := by
  unfold newPieceRequest
  simp only
  have h1 := sendRequest_viewF f { s with pieceRx := some (newRx rd) }
  have h2 := sendRequest_viewF f (sendRequest { s with pieceRx := some (newRx rd) }).1
  refine ⟨by rw [h2.1, h1.1]; rfl, ?_⟩
  simp only [cmdsOf_append, h1.2, h2.2, List.append_nil]
  cases b <;> simp

theorem pieceFinishReply_viewF {α : Type} (f : Nat → Bytes → α) (s : HState) (rep : Rep) (s2 : HState) (o2 : List HOut) (b : Bool)
    (hrx : s.pieceRx = none) (h : pieceFinishReply s rep = some (s2, o2, b)) :
    hviewF f s2 = (rxOfRepF f rep, s.choked) ∧ cmdsOf o2 = [] := by
  unfold pieceFinishReply at h
  cases rep with
  | req rd wi =>
    cases wi with
    | false =>
      simp only [Option.some.injEq, Prod.mk.injEq] at h
      obtain ⟨rfl, rfl, _⟩ := h
      exact newPieceRequest_viewF f s false rd
    | true => cases h
  | sendNotInterested =>
    simp only [Option.some.injEq, Prod.mk.injEq] at h
    obtain ⟨rfl, rfl, _⟩ := h
    exact ⟨by simp [hviewF, hrx, rxOfRepF], by simp⟩
  | prepareKill =>
    simp only [Option.some.injEq, Prod.mk.injEq] at h
    obtain ⟨rfl, rfl, _⟩ := h
    exact ⟨by simp [hviewF, hrx, rxOfRepF], by simp⟩
  | ignore =>
    simp only [Option.some.injEq, Prod.mk.injEq] at h
    obtain ⟨rfl, rfl, _⟩ := h
    exact ⟨by simp [hviewF, hrx, rxOfRepF], by simp⟩
  | bitfield _ => cases h
  | sendInterested => cases h
  | state _ _ => cases h
  | load _ _ => cases h
  | none => cases h

/-- The task's view after it handled an input: read off the command it sent and the reply it got. -/
def taskAfterF {α : Type} (f : Nat → Bytes → α) (v : Option α × Bool) (cmds : List Cmd) (rep : Rep) : Option α × Bool :=
  match cmds with
  | [.recvChoke] => (v.1, true)
  | [.recvUnchoke] => (rxOfRepF f rep, false)
  | [.recvHave _] => (match rep with | .req rd _ => some (f rd.index rd.hash) | _ => v.1, v.2)
  | [.pieceDone] => (rxOfRepF f rep, v.2)
  | [.pieceCancel] => (rxOfRepF f rep, v.2)
  | _ => v

theorem onPiece_viewF {α : Type} (f : Nat → Bytes → α) (sha1 : Bytes → Bytes) (s : HState) (idx begin : Nat) (block : Bytes) (rep : Rep)
    (s1 : HState) (o : List HOut) (h : onPiece sha1 s idx begin block rep = some (s1, o, .go)) :
    hviewF f s1 = taskAfterF f (hviewF f s) (cmdsOf o) rep ∧ (cmdsOf o).length ≤ 1 := by
  unfold onPiece at h
  cases hrx : s.pieceRx with
  | none =>
    simp only [hrx, Option.some.injEq, Prod.mk.injEq] at h
    obtain ⟨rfl, rfl, _⟩ := h
    exact ⟨rfl, by simp⟩
  | some rx =>
    simp only [hrx] at h
    split at h
    · simp only [Option.some.injEq, Prod.mk.injEq] at h
      obtain ⟨rfl, rfl, _⟩ := h
      exact ⟨rfl, by simp⟩
    · split at h
      · split at h
        · cases h
        · -- complete and verified: stored, PieceDone, the reply
          cases hpf : pieceFinishReply { s with pieceRx := none } rep with
          | none => simp [hpf] at h
          | some t =>
            obtain ⟨s2, o2, b2⟩ := t
            simp only [hpf] at h
            cases b2 with
            | true =>
              simp only [Option.some.injEq, Prod.mk.injEq] at h
              obtain ⟨rfl, rfl, _⟩ := h
              obtain ⟨h1, h2⟩ := pieceFinishReply_viewF f _ rep _ _ _ rfl hpf
              refine ⟨?_, by simp [h2]⟩
              simp only [List.cons_append, List.nil_append, cmdsOf_save, cmdsOf_cmd, h2, taskAfterF, h1]
              rfl
            | false => simp at h
      · -- not complete yet: the next request
        simp only [Option.some.injEq, Prod.mk.injEq] at h
        obtain ⟨rfl, rfl, _⟩ := h
        refine ⟨?_, ?_⟩
        · rw [(sendRequest_viewF f _).1, (sendRequest_viewF f _).2]; simp [hviewF, hrx, taskAfterF]
        · rw [(sendRequest_viewF f _).2]; simp

theorem dispatch_viewF {α : Type} (f : Nat → Bytes → α) (sha1 : Bytes → Bytes) (disk : Bytes → Option Bytes) (s : HState) (m : Msg) (rep : Rep)
    (s1 : HState) (o : List HOut) (h : dispatch sha1 disk s m rep = some (s1, o, .go)) :
    hviewF f s1 = taskAfterF f (hviewF f s) (cmdsOf o) rep ∧ (cmdsOf o).length ≤ 1 := by
  cases m with
  | handshake ih pid =>
    simp only [dispatch] at h
    rcases onHandshake_cases s ih pid rep s1 o .go h with ⟨_, _, _, hc⟩ | ⟨_, _, rfl, _, bs, rfl⟩ | ⟨_, _, rfl, _, rfl⟩
    · cases hc
    · exact ⟨rfl, by simp⟩
    · exact ⟨rfl, by simp⟩
  | keepAlive =>
    simp only [dispatch, Option.some.injEq, Prod.mk.injEq] at h
    obtain ⟨rfl, rfl, _⟩ := h
    exact ⟨rfl, by simp⟩
  | choke =>
    simp only [dispatch, Option.some.injEq, Prod.mk.injEq] at h
    obtain ⟨rfl, rfl, _⟩ := h
    exact ⟨rfl, by simp⟩
  | unchoke =>
    simp only [dispatch, onUnchoke] at h
    cases rep with
    | req rd wi =>
      simp only [Option.some.injEq, Prod.mk.injEq] at h
      obtain ⟨rfl, rfl, _⟩ := h
      obtain ⟨h1, h2⟩ := newPieceRequest_viewF f { s with choked := false, msgBuff := [] } wi rd
      refine ⟨?_, by simp [h2, cmdsOf_map_write]⟩
      simp only [cmdsOf_append, cmdsOf_map_write, cmdsOf_cmd, cmdsOf_nil, h2, List.nil_append, List.append_nil, taskAfterF, h1]
      rfl
    | sendNotInterested =>
      simp only [Option.some.injEq, Prod.mk.injEq] at h
      obtain ⟨rfl, rfl, _⟩ := h
      refine ⟨?_, by simp [cmdsOf_map_write]⟩
      simp [cmdsOf_map_write, taskAfterF, hviewF, rxOfRepF]
    | ignore =>
      simp only [Option.some.injEq, Prod.mk.injEq] at h
      obtain ⟨rfl, rfl, _⟩ := h
      refine ⟨?_, by simp [cmdsOf_map_write]⟩
      simp [cmdsOf_map_write, taskAfterF, hviewF, rxOfRepF]
    | bitfield _ => cases h
    | sendInterested => cases h
    | prepareKill => cases h
    | state _ _ => cases h
    | load _ _ => cases h
    | none => cases h
  | interested =>
    simp only [dispatch, Option.some.injEq, Prod.mk.injEq] at h
    obtain ⟨rfl, rfl, _⟩ := h
    exact ⟨rfl, by simp⟩
  | notInterested =>
    simp only [dispatch, onNotInterested] at h
    cases rep with
    | ignore =>
      simp only [Option.some.injEq, Prod.mk.injEq] at h
      obtain ⟨rfl, rfl, _⟩ := h
      exact ⟨by simp [hviewF, taskAfterF], by simp⟩
    | prepareKill => simp at h
    | bitfield _ => cases h
    | req _ _ => cases h
    | sendInterested => cases h
    | sendNotInterested => cases h
    | state _ _ => cases h
    | load _ _ => cases h
    | none => cases h
  | haveP i =>
    simp only [dispatch, onHave] at h
    split at h
    · simp at h
    · cases rep with
      | req rd wi =>
        cases wi with
        | true =>
          simp only [Option.some.injEq, Prod.mk.injEq] at h
          obtain ⟨rfl, rfl, _⟩ := h
          obtain ⟨h1, h2⟩ := newPieceRequest_viewF f s true rd
          refine ⟨?_, by simp [h2]⟩
          simp only [List.cons_append, List.nil_append, cmdsOf_cmd, h2, taskAfterF, h1]
          rfl
        | false => cases h
      | sendInterested =>
        simp only [Option.some.injEq, Prod.mk.injEq] at h
        obtain ⟨rfl, rfl, _⟩ := h
        exact ⟨rfl, by simp⟩
      | ignore =>
        simp only [Option.some.injEq, Prod.mk.injEq] at h
        obtain ⟨rfl, rfl, _⟩ := h
        exact ⟨rfl, by simp⟩
      | bitfield _ => cases h
      | sendNotInterested => cases h
      | prepareKill => cases h
      | state _ _ => cases h
      | load _ _ => cases h
      | none => cases h
  | bitfield bs =>
    simp only [dispatch, onBitfield] at h
    split at h
    · simp at h
    · cases rep with
      | state u i =>
        simp only [Option.some.injEq, Prod.mk.injEq] at h
        obtain ⟨rfl, rfl, _⟩ := h
        refine ⟨?_, by cases u <;> simp⟩
        cases u <;> simp [taskAfterF]
      | bitfield _ => cases h
      | req _ _ => cases h
      | sendInterested => cases h
      | sendNotInterested => cases h
      | prepareKill => cases h
      | ignore => cases h
      | load _ _ => cases h
      | none => cases h
  | request idx begin len =>
    simp only [dispatch, onRequest] at h
    cases hc : consultRequest disk s idx rep with
    | none => simp [hc] at h
    | some t =>
      obtain ⟨s2, o2, ok⟩ := t
      simp only [hc] at h
      cases ok with
      | false => simp at h
      | true =>
        simp only [Option.some.injEq, Prod.mk.injEq] at h
        obtain ⟨rfl, rfl, _⟩ := h
        -- the consult changes the upload cache only; at most the RecvRequest command is sent
        unfold consultRequest at hc
        unfold serveRequest
        split at hc
        · cases rep with
          | load li hh =>
            simp only at hc
            split at hc
            · simp only [Option.some.injEq, Prod.mk.injEq] at hc
              obtain ⟨rfl, rfl, _⟩ := hc
              refine ⟨?_, ?_⟩ <;> (simp only; repeat' split) <;> simp [taskAfterF, hviewF]
            · simp at hc
          | ignore =>
            simp only [Option.some.injEq, Prod.mk.injEq] at hc
            obtain ⟨rfl, rfl, _⟩ := hc
            refine ⟨?_, ?_⟩ <;> simp [taskAfterF, hviewF]
          | bitfield _ => cases hc
          | req _ _ => cases hc
          | sendInterested => cases hc
          | sendNotInterested => cases hc
          | prepareKill => cases hc
          | state _ _ => cases hc
          | none => cases hc
        · simp only [Option.some.injEq, Prod.mk.injEq] at hc
          obtain ⟨rfl, rfl, _⟩ := hc
          refine ⟨?_, ?_⟩ <;> (repeat' split) <;> simp [taskAfterF, hviewF]
  | piece idx begin block =>
    simp only [dispatch] at h
    exact onPiece_viewF f sha1 s idx begin block rep s1 o h
  | cancel idx begin len =>
    simp only [dispatch, Option.some.injEq, Prod.mk.injEq] at h
    obtain ⟨rfl, rfl, _⟩ := h
    exact ⟨rfl, by simp⟩

/-- One step of a live task that does not end it: its view afterwards, and it sent at most one command. -/
theorem hstep_viewF {α : Type} (f : Nat → Bytes → α) (sha1 : Bytes → Bytes) (disk : Bytes → Option Bytes) (t : HState) (ha : t.alive = true) (inp : HIn)
    (t' : HState) (outs : List HOut) (h : hstep sha1 disk t inp = some (t', outs, none)) :
    hviewF f t' = taskAfterF f (hviewF f t) (cmdsOf outs) (repIn inp) ∧ (cmdsOf outs).length ≤ 1 ∧ t'.alive = true := by
  have hg : (!t.alive) = false := by simp [ha]
  cases inp with
  | start =>
    simp only [hstep, hg, Bool.false_eq_true, if_false, Option.some.injEq, Prod.mk.injEq] at h
    obtain ⟨rfl, rfl, _⟩ := h
    exact ⟨rfl, by simp, ha⟩
  | frame m rep =>
    simp only [hstep, hg, Bool.false_eq_true, if_false] at h
    cases hf : handleFrame sha1 disk t m rep with
    | none => simp [hf] at h
    | some res =>
      obtain ⟨s1, o1, c⟩ := res
      rw [hf] at h
      cases c with
      | endNormal => simp [terminate] at h
      | endError => simp [terminate] at h
      | go =>
        simp only [Option.some.injEq, Prod.mk.injEq] at h
        obtain ⟨rfl, rfl, _⟩ := h
        have hal := (handleFrame_core sha1 disk t m rep _ _ _ hf).2.1
        unfold handleFrame at hf
        simp only at hf
        split at hf
        · simp at hf
        · obtain ⟨h1, h2⟩ := dispatch_viewF f sha1 disk _ m rep _ _ hf
          exact ⟨h1, h2, by rw [hal]; exact ha⟩
  | eof => simp [hstep, hg, terminate] at h
  | recvErr => simp [hstep, hg, terminate] at h
  | bcHave i rep =>
    simp only [hstep, hg, Bool.false_eq_true, if_false] at h
    have fin : ∀ (r : Option (HState × List HOut)) (v : Option α × Bool) (cs : List Cmd),
        (∀ s1 o1, r = some (s1, o1) → hviewF f s1 = v ∧ cmdsOf o1 = cs ∧ s1.alive = true) →
        (match r with
          | none => (none : Option HRes)
          | some (s1, o1) =>
            if s1.choked = true then some ({ s1 with msgBuff := s1.msgBuff ++ [i] }, o1, none)
            else some (s1, o1 ++ [HOut.write (Msg.haveP i)], none)) = some (t', outs, none) →
        hviewF f t' = v ∧ cmdsOf outs = cs ∧ t'.alive = true := by
      intro r v cs hr hm
      cases r with
      | none => cases hm
      | some p =>
        obtain ⟨s1, o1⟩ := p
        obtain ⟨hv, hc, hl⟩ := hr s1 o1 rfl
        simp only at hm
        split at hm
        · simp only [Option.some.injEq, Prod.mk.injEq] at hm
          obtain ⟨rfl, rfl, _⟩ := hm
          exact ⟨hv, hc, hl⟩
        · simp only [Option.some.injEq, Prod.mk.injEq] at hm
          obtain ⟨rfl, rfl, _⟩ := hm
          exact ⟨hv, by simp [hc], hl⟩
    cases hrx : t.pieceRx with
    | none =>
      rw [hrx] at h
      obtain ⟨h1, h2, h3⟩ := fin (some (t, [])) (hviewF f t) [] (fun s1 o1 e => by cases e; exact ⟨rfl, rfl, ha⟩) h
      exact ⟨by rw [h1, h2]; rfl, by rw [h2]; simp, h3⟩
    | some rx =>
      rw [hrx] at h
      simp only at h
      by_cases hi : rx.index = i
      · simp only [hi, if_true] at h
        cases hpf : pieceFinishReply { t with pieceRx := none } rep with
        | none => rw [hpf] at h; cases h
        | some tt =>
          obtain ⟨s2, o2, b2⟩ := tt
          rw [hpf] at h
          obtain ⟨hv, hc⟩ := pieceFinishReply_viewF f _ rep _ _ _ rfl hpf
          have hcore := pieceFinishReply_core _ rep _ _ _ hpf
          obtain ⟨h1, h2, h3⟩ := fin (some (s2, _)) (rxOfRepF f rep, t.choked) [.pieceCancel]
            (fun s1 o1 e => by
              cases e
              refine ⟨hv, ?_, by rw [hcore.2.1]; exact ha⟩
              simp [cmdsOf_map_write, hc]) h
          exact ⟨by rw [h1, h2]; rfl, by rw [h2]; simp, h3⟩
      · simp only [hi, if_false] at h
        obtain ⟨h1, h2, h3⟩ := fin (some (t, [])) (hviewF f t) [] (fun s1 o1 e => by cases e; exact ⟨rfl, rfl, ha⟩) h
        exact ⟨by rw [h1, h2]; rfl, by rw [h2]; simp, h3⟩
  | bcState entry =>
    simp only [hstep, hg, Bool.false_eq_true, if_false] at h
    split at h <;>
      (simp only [Option.some.injEq, Prod.mk.injEq] at h
       obtain ⟨rfl, rfl, _⟩ := h
       exact ⟨rfl, by simp, ha⟩)
  | tick =>
    simp only [hstep, hg, Bool.false_eq_true, if_false] at h
    split at h
    · simp [terminate] at h
    · simp only [Option.some.injEq, Prod.mk.injEq] at h
      obtain ⟨rfl, rfl, _⟩ := h
      exact ⟨rfl, by simp, ha⟩

/-! The link with the manager uses the index alone. -/

abbrev idxOnly : Nat → Bytes → Nat := fun i _ => i
abbrev hview (t : HState) : View := hviewF idxOnly t
abbrev rxOfRep (rep : Rep) : Option Nat := rxOfRepF idxOnly rep
abbrev taskAfter (v : View) (cmds : List Cmd) (rep : Rep) : View := taskAfterF idxOnly v cmds rep

theorem rxOfRep_repOf (T : Torrent) (r : Reply) : rxOfRepF idxOnly (repOf T r) = rxOfReply r := by
  cases r <;> rfl

theorem hstep_view (sha1 : Bytes → Bytes) (disk : Bytes → Option Bytes) (t : HState) (ha : t.alive = true) (inp : HIn)
    (t' : HState) (outs : List HOut) (h : hstep sha1 disk t inp = some (t', outs, none)) :
    hview t' = taskAfter (hview t) (cmdsOf outs) (repIn inp) ∧ (cmdsOf outs).length ≤ 1 ∧ t'.alive = true :=
  hstep_viewF idxOnly sha1 disk t ha inp t' outs h

/-- A step that ends the task leaves it dead. -/
theorem hstep_end (sha1 : Bytes → Bytes) (disk : Bytes → Option Bytes) (t : HState) (ha : t.alive = true) (inp : HIn)
    (t' : HState) (outs : List HOut) (b : Bool) (h : hstep sha1 disk t inp = some (t', outs, some b)) :
    t'.alive = false := by
  have hg : (!t.alive) = false := by simp [ha]
  cases inp with
  | start => simp [hstep, hg] at h
  | frame m rep =>
    simp only [hstep, hg, Bool.false_eq_true, if_false] at h
    cases hf : handleFrame sha1 disk t m rep with
    | none => simp [hf] at h
    | some res =>
      obtain ⟨s1, o1, c⟩ := res
      rw [hf] at h
      cases c <;> simp [terminate] at h <;> (rw [← h.1])
  | eof => simp only [hstep, hg, Bool.false_eq_true, if_false, terminate, Option.some.injEq, Prod.mk.injEq] at h; rw [← h.1]
  | recvErr => simp only [hstep, hg, Bool.false_eq_true, if_false, terminate, Option.some.injEq, Prod.mk.injEq] at h; rw [← h.1]
  | bcHave i rep =>
    have := (hstep_bcHave_core sha1 disk t ha i rep t' outs (some b) h).1
    cases this
  | bcState entry =>
    simp only [hstep, hg, Bool.false_eq_true, if_false] at h
    split at h <;> simp at h
  | tick =>
    simp only [hstep, hg, Bool.false_eq_true, if_false] at h
    split at h
    · simp only [terminate, Option.some.injEq, Prod.mk.injEq] at h; rw [← h.1]
    · simp at h

/-! ### The link is kept -/

theorem linked_of_view (a : Nat) (m' : MState) (t' : HState) (v : View) (p' : MPeer)
    (hp : findPeer m' a = some p') (h1 : (p'.rx, p'.choked) = v) (h2 : hview t' = v)
    (h3 : ∀ y, p'.rx = some y → p'.pieceIndex = some y) : Linked a m' t' := by
  intro _
  refine ⟨p', hp, ?_, ?_, h3⟩
  · have := congrArg Prod.fst (h2.trans h1.symm); exact this
  · have := congrArg Prod.snd (h2.trans h1.symm); exact this

/-- **Own steps keep the link.** Whatever input the task of peer `a` handles — any frame, broadcast, tick, stream end —
    with the manager answering its command (every outcome of the chooser): afterwards the manager's record of `a` again
    shows the piece the task is fetching (`rx`) and whether the peer chokes us; or the task has ended. -/
theorem linked_step (T : Torrent) (sha1 : Bytes → Bytes) (disk : Bytes → Option Bytes) (a : Nat) (m m' : MState)
    (t t' : HState) (inp : HIn) (hl : Linked a m t) (hs : LStep T sha1 disk a m t inp m' t') : Linked a m' t' := by
  obtain ⟨outs, e, m1, hh, hH, rfl⟩ := hs
  cases hal : t.alive with
  | false =>
    simp only [hstep, hal, Bool.not_false, if_true, Option.some.injEq, Prod.mk.injEq] at hh
    obtain ⟨rfl, _, _⟩ := hh
    intro c; rw [hal] at c; cases c
  | true =>
    cases e with
    | some b =>
      have := hstep_end sha1 disk t hal inp t' outs b hh
      intro c; rw [this] at c; cases c
    | none =>
      obtain ⟨hv, hlen, _⟩ := hstep_view sha1 disk t hal inp t' outs hh
      obtain ⟨p, hp, hrx, hch, hidx⟩ := hl hal
      have hvt : hview t = (p.rx, p.choked) := by simp [hview, hviewF, idxOnly, hrx, hch]
      simp only [afterEnd]
      cases hc : cmdsOf outs with
      | nil =>
        rw [hc] at hH hv
        simp only [Handled] at hH
        rw [hH]
        exact linked_of_view a m t' _ p hp rfl (by rw [hv, hvt]; rfl) hidx
      | cons c rest =>
        rw [hc] at hlen hv hH
        have hrest : rest = [] := by
          cases rest with
          | nil => rfl
          | cons _ _ => exact absurd hlen (by simp)
        subst hrest
        cases c with
        | init pid =>
          simp only [Handled] at hH; rw [hH]
          exact linked_of_view a m t' _ p hp rfl (by rw [hv, hvt]; rfl) hidx
        | recvRequest idx =>
          simp only [Handled] at hH; rw [hH]
          exact linked_of_view a m t' _ p hp rfl (by rw [hv, hvt]; rfl) hidx
        | recvChoke =>
          simp only [Handled] at hH
          obtain ⟨p', hp', hv', hi'⟩ := mstep_view m m1 a _ _ p rfl rfl hp hH
          exact linked_of_view a m1 t' _ p' hp' hv' (by rw [hv, hvt]; rfl) (hi' hidx)
        | recvInterested =>
          simp only [Handled] at hH
          obtain ⟨p', hp', hv', hi'⟩ := mstep_view m m1 a _ _ p rfl rfl hp hH
          exact linked_of_view a m1 t' _ p' hp' hv' (by rw [hv, hvt]; rfl) (hi' hidx)
        | recvUnchoke =>
          simp only [Handled] at hH
          obtain ⟨chosen, r, hm, hr⟩ := hH
          obtain ⟨p', hp', hv', hi'⟩ := mstep_view m m1 a _ _ p rfl rfl hp hm
          exact linked_of_view a m1 t' _ p' hp' hv' (by rw [hv, hvt, hr]; simp [taskAfter, taskAfterF, viewAfter, rxOfRep_repOf]) (hi' hidx)
        | recvNotInterested =>
          simp only [Handled] at hH
          obtain ⟨chosen, r, hm, hr⟩ := hH
          obtain ⟨p', hp', hv', hi'⟩ := mstep_view m m1 a _ _ p rfl rfl hp hm
          exact linked_of_view a m1 t' _ p' hp' hv' (by rw [hv, hvt]; rfl) (hi' hidx)
        | recvHave i =>
          simp only [Handled] at hH
          obtain ⟨chosen, r, hm, hr⟩ := hH
          obtain ⟨p', hp', hv', hi'⟩ := mstep_view m m1 a _ _ p rfl rfl hp hm
          refine linked_of_view a m1 t' _ p' hp' hv' ?_ (hi' hidx)
          rw [hv, hvt, hr]
          cases r <;> simp [taskAfter, taskAfterF, idxOnly, viewAfter, repOf]
        | recvBitfield bs =>
          simp only [Handled] at hH
          obtain ⟨bits, chosen, u, hm, hr⟩ := hH
          obtain ⟨p', hp', hv', hi'⟩ := mstep_view m m1 a _ _ p rfl rfl hp hm
          exact linked_of_view a m1 t' _ p' hp' hv' (by rw [hv, hvt]; rfl) (hi' hidx)
        | pieceDone =>
          simp only [Handled] at hH
          obtain ⟨chosen, r, hm, hr⟩ := hH
          obtain ⟨p', hp', hv', hi'⟩ := mstep_view m m1 a _ _ p rfl rfl hp hm
          exact linked_of_view a m1 t' _ p' hp' hv' (by rw [hv, hvt, hr]; simp [taskAfter, taskAfterF, viewAfter, rxOfRep_repOf]) (hi' hidx)
        | pieceCancel =>
          simp only [Handled] at hH
          obtain ⟨chosen, r, hm, hr⟩ := hH
          obtain ⟨p', hp', hv', hi'⟩ := mstep_view m m1 a _ _ p rfl rfl hp hm
          exact linked_of_view a m1 t' _ p' hp' hv' (by rw [hv, hvt, hr]; simp [taskAfter, taskAfterF, viewAfter, rxOfRep_repOf]) (hi' hidx)

/-- **Steps of other connections keep the link**: any event of any other peer (connect, command, disconnect). -/
theorem linked_env (a : Nat) (m m' : MState) (t : HState) (ev : Ev) (r : Reply) (hne : evAddr ev ≠ a)
    (hl : Linked a m t) (h : mstep m ev = .ok m' r) : Linked a m' t := by
  intro ha
  obtain ⟨p, hp, h1, h2, h3⟩ := hl ha
  exact ⟨p, by rw [mstep_other m m' a ev r hne h]; exact hp, h1, h2, h3⟩

/-! ### Any number of connections: the link holds for every one of them in every reachable state -/

theorem handled_other (T : Torrent) (a b : Nat) (m m1 : MState) (cmds : List Cmd) (rep : Rep) (hab : a ≠ b)
    (h : Handled T a m cmds rep m1) : findPeer m1 b = findPeer m b := by
  cases cmds with
  | nil => simp only [Handled] at h; rw [h]
  | cons c rest =>
    cases rest with
    | cons c2 r2 => cases c <;> simp [Handled] at h
    | nil =>
      cases c with
      | init pid => simp only [Handled] at h; rw [h]
      | recvRequest idx => simp only [Handled] at h; rw [h]
      | recvChoke => simp only [Handled] at h; exact mstep_other m m1 b _ _ (by exact hab) h
      | recvInterested => simp only [Handled] at h; exact mstep_other m m1 b _ _ (by exact hab) h
      | recvUnchoke => simp only [Handled] at h; obtain ⟨_, _, hm, _⟩ := h; exact mstep_other m m1 b _ _ (by exact hab) hm
      | recvNotInterested => simp only [Handled] at h; obtain ⟨_, _, hm, _⟩ := h; exact mstep_other m m1 b _ _ (by exact hab) hm
      | recvHave i => simp only [Handled] at h; obtain ⟨_, _, hm, _⟩ := h; exact mstep_other m m1 b _ _ (by exact hab) hm
      | recvBitfield bs => simp only [Handled] at h; obtain ⟨_, _, _, hm, _⟩ := h; exact mstep_other m m1 b _ _ (by exact hab) hm
      | pieceDone => simp only [Handled] at h; obtain ⟨_, _, hm, _⟩ := h; exact mstep_other m m1 b _ _ (by exact hab) hm
      | pieceCancel => simp only [Handled] at h; obtain ⟨_, _, hm, _⟩ := h; exact mstep_other m m1 b _ _ (by exact hab) hm

theorem afterEnd_other (a b : Nat) (e : Option Bool) (m : MState) (hab : a ≠ b) :
    findPeer (afterEnd a e m) b = findPeer m b := by
  unfold afterEnd
  cases e with
  | none => rfl
  | some x =>
    simp only
    cases hk : mstep m (.kill a) with
    | ok m' r => exact mstep_other m m' b _ r (by exact hab) hk
    | panic w => rfl

theorem lstep_other (T : Torrent) (sha1 : Bytes → Bytes) (disk : Bytes → Option Bytes) (a b : Nat) (m m' : MState)
    (t t' : HState) (inp : HIn) (outs : List HOut) (hab : a ≠ b) (h : LStepO T sha1 disk a m t inp m' t' outs) :
    findPeer m' b = findPeer m b := by
  obtain ⟨e, m1, _, hH, rfl⟩ := h
  rw [afterEnd_other a b e m1 hab]
  exact handled_other T a b m m1 _ _ hab hH

def AllLinked (S : Sys) : Prop := ∀ b, Linked b S.m (S.tasks b)

theorem allLinked_step (T : Torrent) (sha1 : Bytes → Bytes) (S S' : Sys) (hl : AllLinked S) (hs : SysStep T sha1 S S') :
    AllLinked S' := by
  cases hs with
  | connect a t m' hnone hfresh hadd =>
    intro b
    by_cases hb : b = a
    · subst hb
      simp only [updateTask, if_true]
      intro _
      simp only [mstep, Out.ok.injEq] at hadd
      obtain ⟨rfl, _⟩ := hadd
      refine ⟨{ addr := b, pieces := List.replicate S.m.statuses.length false }, by simp [findPeer], ?_, ?_, ?_⟩
      · simp [hfresh.2.1]
      · simp [hfresh.2.2]
      · intro y hy; cases hy
    · simp only [updateTask, hb, if_false]
      intro ha
      obtain ⟨p, hp, h1, h2, h3⟩ := hl b ha
      exact ⟨p, by rw [mstep_other S.m m' b _ _ (by exact fun c => hb c.symm) hadd]; exact hp, h1, h2, h3⟩
  | own a d inp m' t' outs hstep =>
    intro b
    by_cases hb : b = a
    · subst hb
      simp only [updateTask, if_true]
      exact linked_step T sha1 (diskOf d) b S.m m' (S.tasks b) t' inp (hl b) ⟨outs, hstep⟩
    · simp only [updateTask, hb, if_false]
      intro ha
      obtain ⟨p, hp, h1, h2, h3⟩ := hl b ha
      exact ⟨p, by rw [lstep_other T sha1 (diskOf d) a b S.m m' _ _ inp outs (fun c => hb c.symm) hstep]; exact hp, h1, h2, h3⟩

/-- **In every reachable state of the whole client** — any number of connections, any interleaving of their steps, any
    inputs, every outcome of the chooser — the manager's record of every live connection mirrors that connection's task:
    `rx` is the piece the task is fetching, `choked` its choke flag, and the fetched piece is the assigned one. -/
theorem allLinked_reach (T : Torrent) (sha1 : Bytes → Bytes) (S : Sys) (h : SysReach T sha1 S) : AllLinked S := by
  induction h with
  | init n dead hd => intro b ha; rw [hd b] at ha; cases ha
  | step S S' _ hs ih => exact allLinked_step T sha1 S S' ih hs

/-! ### What a task is told about the piece it fetches is what the torrent lists -/

theorem rxListed_iff (T : Torrent) (t : HState) :
    RxListed T t ↔ ∀ i h, (hviewF Prod.mk t).1 = some (i, h) → h = T.hashes.getD i [] := by
  unfold RxListed hviewF
  constructor
  · intro hl i h hv
    cases hp : t.pieceRx with
    | none => simp [hp] at hv
    | some rx =>
      simp only [hp, Option.map_some, Option.some.injEq, Prod.mk.injEq] at hv
      obtain ⟨rfl, rfl⟩ := hv
      exact hl rx hp
  · intro hl rx hp
    exact hl rx.index rx.hash (by simp [hp])

theorem rxOfRepF_repOf_listed (T : Torrent) (r : Reply) (i : Nat) (h : Bytes)
    (hv : rxOfRepF Prod.mk (repOf T r) = some (i, h)) : h = T.hashes.getD i [] := by
  cases r <;> simp [rxOfRepF, repOf] at hv
  obtain ⟨rfl, rfl⟩ := hv
  rfl

/-- Own steps keep it: every `ReqData` a task acts on came from the manager's reply (`repOf`: hash and length read from
    the metainfo for the chosen index). -/
theorem rxListed_step (T : Torrent) (sha1 : Bytes → Bytes) (disk : Bytes → Option Bytes) (a : Nat) (m m' : MState)
    (t t' : HState) (inp : HIn) (outs : List HOut) (hal : t.alive = true) (hl : RxListed T t)
    (hs : LStepO T sha1 disk a m t inp m' t' outs) (hal' : t'.alive = true) : RxListed T t' := by
  obtain ⟨e, m1, hh, hH, _⟩ := hs
  cases e with
  | some b => rw [hstep_end sha1 disk t hal inp t' outs b hh] at hal'; cases hal'
  | none =>
    obtain ⟨hv, hlen, _⟩ := hstep_viewF Prod.mk sha1 disk t hal inp t' outs hh
    rw [rxListed_iff] at hl ⊢
    intro i h hi
    rw [hv] at hi
    cases hc : cmdsOf outs with
    | nil => rw [hc] at hi; exact hl i h hi
    | cons c rest =>
      rw [hc] at hlen hi hH
      have hrest : rest = [] := by
        cases rest with
        | nil => rfl
        | cons _ _ => exact absurd hlen (by simp)
      subst hrest
      cases c with
      | init pid => exact hl i h hi
      | recvRequest idx => exact hl i h hi
      | recvChoke => exact hl i h hi
      | recvInterested => exact hl i h hi
      | recvNotInterested => exact hl i h hi
      | recvBitfield bs => exact hl i h hi
      | recvUnchoke =>
        simp only [Handled] at hH
        obtain ⟨_, r, _, hr⟩ := hH
        simp only [taskAfterF, hr] at hi
        exact rxOfRepF_repOf_listed T r i h hi
      | pieceDone =>
        simp only [Handled] at hH
        obtain ⟨_, r, _, hr⟩ := hH
        simp only [taskAfterF, hr] at hi
        exact rxOfRepF_repOf_listed T r i h hi
      | pieceCancel =>
        simp only [Handled] at hH
        obtain ⟨_, r, _, hr⟩ := hH
        simp only [taskAfterF, hr] at hi
        exact rxOfRepF_repOf_listed T r i h hi
      | recvHave j =>
        simp only [Handled] at hH
        obtain ⟨_, r, _, hr⟩ := hH
        simp only [taskAfterF, hr] at hi
        cases r with
        | request c wi => simp only [repOf, Option.some.injEq, Prod.mk.injEq] at hi; obtain ⟨rfl, rfl⟩ := hi; rfl
        | sendInterested => exact hl i h hi
        | sendNotInterested => exact hl i h hi
        | prepareKill => exact hl i h hi
        | ignore => exact hl i h hi
        | none => exact hl i h hi

def AllListed (T : Torrent) (S : Sys) : Prop := ∀ b, (S.tasks b).alive = true → RxListed T (S.tasks b)

theorem allListed_reach (T : Torrent) (sha1 : Bytes → Bytes) (S : Sys) (h : SysReach T sha1 S) : AllListed T S := by
  induction h with
  | init n dead hd => intro b ha; rw [hd b] at ha; cases ha
  | step S S' _ hs ih =>
    cases hs with
    | connect a t m' hnone hfresh hadd =>
      intro b hb
      by_cases hba : b = a
      · subst hba
        simp only [updateTask, if_true] at hb ⊢
        intro rx hrx; rw [hfresh.2.1] at hrx; cases hrx
      · simp only [updateTask, hba, if_false] at hb ⊢
        exact ih b hb
    | own a d inp m' t' outs hstep =>
      intro b hb
      by_cases hba : b = a
      · subst hba
        simp only [updateTask, if_true] at hb ⊢
        cases hal : (S.tasks b).alive with
        | true => exact rxListed_step T sha1 (diskOf d) b S.m m' _ t' inp outs hal (ih b hal) hstep hb
        | false =>
          obtain ⟨e, m1, hh, _, _⟩ := hstep
          simp only [hstep, hal, Bool.not_false, if_true, Option.some.injEq, Prod.mk.injEq] at hh
          rw [← hh.1, hal] at hb; cases hb
      · simp only [updateTask, hba, if_false] at hb ⊢
        exact ih b hb

/-! ### A task that ends is forgotten -/

theorem find_filter_self (ps : List MPeer) (a : Nat) :
    (ps.filter (fun x => decide (x.addr ≠ a))).find? (·.addr = a) = none := by
  induction ps with
  | nil => rfl
  | cons x xs ih =>
    by_cases hx : x.addr = a
    · rw [List.filter_cons_of_neg (by simp [hx])]; exact ih
    · rw [List.filter_cons_of_pos (by simp [hx]), List.find?_cons_of_neg (by simp [hx])]; exact ih

/-- Whatever ends a connection task (the peer closing the stream, a malformed frame, a wrong handshake, the keep-alive
    limit, a hash mismatch, `PrepareKill`): after the joint step the manager has no record of that connection, and the
    piece it was assigned is `Missing` again unless it is owned. -/
theorem ended_is_forgotten (T : Torrent) (sha1 : Bytes → Bytes) (disk : Bytes → Option Bytes) (a : Nat) (m m' : MState)
    (t t' : HState) (inp : HIn) (outs : List HOut) (hal : t.alive = true) (hs : LStepO T sha1 disk a m t inp m' t' outs)
    (hdead : t'.alive = false) : findPeer m' a = none := by
  obtain ⟨e, m1, hh, _, rfl⟩ := hs
  cases e with
  | none =>
    have := (hstep_view sha1 disk t hal inp t' outs hh).2.2
    rw [hdead] at this; cases this
  | some b =>
    simp only [afterEnd]
    cases hk : mstep m1 (.kill a) with
    | panic w => simp [mstep] at hk; cases hp : findPeer m1 a <;> simp [hp] at hk
    | ok m2 r =>
      simp only [mstep] at hk
      cases hp : findPeer m1 a with
      | none => simp only [hp, Out.ok.injEq] at hk; rw [← hk.1]; exact hp
      | some p =>
        simp only [hp, Out.ok.injEq] at hk
        rw [← hk.1]
        exact find_filter_self m1.peers a

end Rdest.Swarm.Loop
