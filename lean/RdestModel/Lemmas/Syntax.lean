/-
  Concrete bencode syntax: which byte strings are the text of one value (including the non-canonical but legal
  forms: leading zeros in a length prefix, dictionary keys in any order, repeated keys), and how the model of the
  decoder, of `skip_value` and of `raw_info` behave on such texts in any context.
-/
import RdestModel.Lemmas.Bencode
import RdestModel.Meta.Parse
set_option linter.unusedSimpArgs false
set_option linter.unusedVariables false
namespace Rdest.Syntax
open Rdest Rdest.Bencode Rdest.Meta

/-- The text of a byte string `s`: a non-empty decimal length prefix (leading zeros allowed), `:`, the bytes. -/
def StrTxt (t s : Bytes) : Prop :=
  ∃ d0 ds, t = d0 :: ds ++ cColon :: s ∧ (d0 :: ds).all isDigit = true ∧ decToNat (d0 :: ds) = s.length ∧ s.length < 2 ^ 64

/-- An entry of a dictionary text: key text, key, value text, value. -/
structure Entry where
  keyTxt : Bytes
  key : Bytes
  valTxt : Bytes
  val : BValue

def entriesTxt (es : List Entry) : Bytes := (es.map fun e => e.keyTxt ++ e.valTxt).flatten
def entriesKV (es : List Entry) : List (Bytes × BValue) := es.map fun e => (e.key, e.val)
def itemsTxt (ts : List (Bytes × BValue)) : Bytes := (ts.map (·.1)).flatten

/-- `Txt t v`: the byte string `t` is the text of exactly one bencode value, which is `v`. -/
inductive Txt : Bytes → BValue → Prop
  | str (t s : Bytes) : StrTxt t s → Txt t (.str s)
  | int (i : Int) : -(2 : Int) ^ 63 ≤ i → i < (2 : Int) ^ 63 → Txt (cI :: intDec i ++ [cE]) (.int i)
  | list (ts : List (Bytes × BValue)) : (∀ t ∈ ts, Txt t.1 t.2) → Txt (cL :: itemsTxt ts ++ [cE]) (.list (ts.map (·.2)))
  | dict (es : List Entry) : (∀ e ∈ es, StrTxt e.keyTxt e.key) → (∀ e ∈ es, Txt e.valTxt e.val) →
      Txt (cD :: entriesTxt es ++ [cE]) (.dict (mkDict (entriesKV es)))

/-! ### Strings with an arbitrary legal length prefix -/

theorem parseByteStr_txt (d0 : UInt8) (ds s rest : Bytes) (hall : (d0 :: ds).all isDigit = true)
    (hdec : decToNat (d0 :: ds) = s.length) (hlen : s.length < 2 ^ 64) :
    parseByteStr d0 (ds ++ cColon :: (s ++ rest)) = some (s, rest) := by
  have hds : ds.all isDigit = true := by simp only [List.all_cons, Bool.and_eq_true] at hall; exact hall.2
  have hsp := splitAt_append cColon ds (s ++ rest) (all_digits_ne ds hds cColon (by decide))
  unfold parseByteStr
  simp only [hsp, hall, Bool.not_true, Bool.false_eq_true, if_false, hdec]
  have h1 : ¬ (s.length ≥ 2 ^ 64) := by omega
  have h2 : ¬ ((s ++ rest).length < s.length) := by simp
  rw [if_neg h1, if_neg h2]
  simp

theorem strTxt_values (t s : Bytes) (h : StrTxt t s) (c : Bool) (rest : Bytes) (w : Bool) :
    valuesU c (t ++ rest) w = consV (.str s) (valuesU c rest w) := by
  obtain ⟨d0, ds, rfl, hall, hdec, hlen⟩ := h
  have hd0 : isDigit d0 = true := by simp only [List.all_cons, Bool.and_eq_true] at hall; exact hall.1
  have hp := parseByteStr_txt d0 ds s rest hall hdec hlen
  simp only [List.cons_append, List.append_assoc]
  exact valuesU_str c d0 _ s rest w hd0 hp

/-- `consV` over a list of values. -/
def consAll (vs : List BValue) (r : DRes) : DRes := vs.foldr consV r

theorem consAll_ok (vs : List BValue) (rest : Bytes) : consAll vs (.ok ([], rest)) = .ok (vs, rest) := by
  induction vs with
  | nil => rfl
  | cons v vs ih => simp [consAll, consV] at ih ⊢; rw [ih]

def flatKV : List (Bytes × BValue) → List BValue
  | [] => []
  | (k, v) :: rest => .str k :: v :: flatKV rest

theorem pairUp_flatKV (d : List (Bytes × BValue)) : pairUp (flatKV d) = some d := by
  induction d with
  | nil => rfl
  | cons e es ih => obtain ⟨k, v⟩ := e; simp [flatKV, pairUp, ih]

/-- `Parses t v`: wherever the text stands, the decoder reads exactly `v` from it and goes on behind it. -/
def Parses (t : Bytes) (v : BValue) : Prop :=
  ∀ (c : Bool) (rest : Bytes) (w : Bool), valuesU c (t ++ rest) w = consV v (valuesU c rest w)

theorem items_values (ts : List (Bytes × BValue)) (h : ∀ t ∈ ts, Parses t.1 t.2) (c : Bool) (rest : Bytes) (w : Bool) :
    valuesU c (itemsTxt ts ++ rest) w = consAll (ts.map (·.2)) (valuesU c rest w) := by
  induction ts with
  | nil => rfl
  | cons t ts ih =>
    simp only [itemsTxt, List.map_cons, List.flatten_cons, List.append_assoc]
    rw [h t List.mem_cons_self c _ w]
    have := ih (fun x hx => h x (List.mem_cons_of_mem _ hx))
    simp only [itemsTxt] at this
    rw [this]; rfl

theorem entries_values (es : List Entry) (h : ∀ e ∈ es, StrTxt e.keyTxt e.key ∧ Parses e.valTxt e.val)
    (c : Bool) (rest : Bytes) (w : Bool) :
    valuesU c (entriesTxt es ++ rest) w = consAll (flatKV (entriesKV es)) (valuesU c rest w) := by
  induction es with
  | nil => rfl
  | cons e es ih =>
    obtain ⟨hk, hv⟩ := h e List.mem_cons_self
    simp only [entriesTxt, List.map_cons, List.flatten_cons, List.append_assoc]
    rw [strTxt_values e.keyTxt e.key hk c _ w, hv c _ w]
    have := ih (fun x hx => h x (List.mem_cons_of_mem _ hx))
    simp only [entriesTxt] at this
    rw [this]; rfl

/-- **Every value text parses as its value in every context** (both grammars, any nesting). -/
theorem txt_parses (t : Bytes) (v : BValue) (h : Txt t v) : Parses t v := by
  induction h with
  | str t s hs => exact fun c rest w => strTxt_values t s hs c rest w
  | int i hlo hhi =>
    intro c rest w
    simp only [List.cons_append, List.append_assoc, List.singleton_append]
    exact valuesU_int c _ rest i w (parseInt_enc i rest hlo hhi)
  | list ts _ ih =>
    intro c rest w
    simp only [List.cons_append, List.append_assoc, List.singleton_append]
    have hin : valuesU c (itemsTxt ts ++ cE :: rest) true = .ok (ts.map (·.2), rest) := by
      rw [items_values ts ih c (cE :: rest) true, valuesU_end, consAll_ok]
    exact valuesU_list c _ rest _ w hin
  | dict es hks _ ih =>
    intro c rest w
    simp only [List.cons_append, List.append_assoc, List.singleton_append]
    have hin : valuesU c (entriesTxt es ++ cE :: rest) true = .ok (flatKV (entriesKV es), rest) := by
      rw [entries_values es (fun e he => ⟨hks e he, ih e he⟩) c (cE :: rest) true, valuesU_end, consAll_ok]
    exact valuesU_dict c _ rest _ _ w hin (pairUp_flatKV _)

/-! ### `skip_value` -/

theorem strTxt_skip (t s : Bytes) (h : StrTxt t s) (rest : Bytes) : skipValue (t ++ rest) = some rest := by
  obtain ⟨d0, ds, rfl, hall, hdec, hlen⟩ := h
  have hd0 : isDigit d0 = true := by simp only [List.all_cons, Bool.and_eq_true] at hall; exact hall.1
  have hp := parseByteStr_txt d0 ds s rest hall hdec hlen
  simp only [List.cons_append, List.append_assoc, skipValue, hd0, if_true]
  rw [hp]; rfl

theorem container_skip (b : UInt8) (hb : b = cL ∨ b = cD) (body rest : Bytes) (items : List BValue)
    (h : valuesU true (body ++ cE :: rest) true = .ok (items, rest)) :
    skipValue (b :: (body ++ cE :: rest)) = some rest := by
  have hd : isDigit b = false := by rcases hb with rfl | rfl <;> decide
  have hi : ¬ (b = cI) := by rcases hb with rfl | rfl <;> decide
  have hc : (decide (b = cL) || decide (b = cD)) = true := by rcases hb with rfl | rfl <;> decide
  have hv : values true ((body ++ cE :: rest).length + 1) (body ++ cE :: rest) true = .ok (items, rest) := h
  simp only [skipValue, hd, Bool.false_eq_true, if_false, hi]
  rw [if_pos hc, hv]

/-- **`skip_value` consumes exactly one value text**, whatever follows. -/
theorem txt_skip (t : Bytes) (v : BValue) (h : Txt t v) (rest : Bytes) : skipValue (t ++ rest) = some rest := by
  cases h with
  | str t s hs => exact strTxt_skip t s hs rest
  | int i hlo hhi =>
    have hp := parseInt_enc i rest hlo hhi
    have hd : isDigit cI = false := by decide
    simp only [List.cons_append, List.append_assoc, List.singleton_append, List.nil_append, skipValue, hd, Bool.false_eq_true, if_false, if_true, hp]
    rfl
  | list ts hts =>
    have hin : valuesU true (itemsTxt ts ++ cE :: rest) true = .ok (ts.map (·.2), rest) := by
      rw [items_values ts (fun t ht => txt_parses _ _ (hts t ht)) true (cE :: rest) true, valuesU_end, consAll_ok]
    simp only [List.cons_append, List.append_assoc, List.singleton_append]
    exact container_skip cL (Or.inl rfl) _ rest _ hin
  | dict es hks hvs =>
    have hin : valuesU true (entriesTxt es ++ cE :: rest) true = .ok (flatKV (entriesKV es), rest) := by
      rw [entries_values es (fun e he => ⟨hks e he, txt_parses _ _ (hvs e he)⟩) true (cE :: rest) true,
        valuesU_end, consAll_ok]
    simp only [List.cons_append, List.append_assoc, List.singleton_append]
    exact container_skip cD (Or.inr rfl) _ rest _ hin

theorem skipN_items (ts : List (Bytes × BValue)) (h : ∀ t ∈ ts, Txt t.1 t.2) (rest : Bytes) :
    skipN ts.length (itemsTxt ts ++ rest) = some rest := by
  induction ts with
  | nil => rfl
  | cons t ts ih =>
    simp only [itemsTxt, List.map_cons, List.flatten_cons, List.append_assoc, List.length_cons, skipN]
    rw [txt_skip t.1 t.2 (h t List.mem_cons_self)]
    have := ih (fun x hx => h x (List.mem_cons_of_mem _ hx))
    simp only [itemsTxt] at this
    simpa using this

/-! ### `raw_info`: the scan over the entries of the dictionary -/

/-- The value text of the last entry whose key is `info` (the entry the decoder's map keeps). -/
def lastInfo (found : Option Bytes) : List Entry → Option Bytes
  | [] => found
  | e :: es => lastInfo (if e.key = kInfo then some e.valTxt else found) es

theorem entriesTxt_length (es : List Entry) (h : ∀ e ∈ es, StrTxt e.keyTxt e.key) : es.length ≤ (entriesTxt es).length := by
  induction es with
  | nil => simp
  | cons e es ih =>
    obtain ⟨d0, ds, hk, _⟩ := h e List.mem_cons_self
    have := ih (fun x hx => h x (List.mem_cons_of_mem _ hx))
    have hl : (entriesTxt (e :: es)).length = e.keyTxt.length + e.valTxt.length + (entriesTxt es).length := by
      simp [entriesTxt, Nat.add_assoc]
    rw [hl, hk]; simp only [List.length_cons, List.length_append]; omega

theorem scanDict_entries (es : List Entry) (h : ∀ e ∈ es, StrTxt e.keyTxt e.key ∧ Txt e.valTxt e.val)
    (tail : Bytes) (found : Option Bytes) (fuel : Nat) (hf : es.length < fuel) :
    scanDict fuel (entriesTxt es ++ cE :: tail) found = some (lastInfo found es) := by
  induction es generalizing found fuel with
  | nil =>
    cases fuel with
    | zero => omega
    | succ f => simp [entriesTxt, scanDict, lastInfo]
  | cons e es ih =>
    cases fuel with
    | zero => omega
    | succ f =>
      obtain ⟨hk, hv⟩ := h e List.mem_cons_self
      obtain ⟨d0, ds, hkt, hall, hdec, hlen⟩ := hk
      have hd0 : isDigit d0 = true := by simp only [List.all_cons, Bool.and_eq_true] at hall; exact hall.1
      have hne : d0 ≠ cE := digit_ne_e d0 hd0
      let rest' := e.valTxt ++ (entriesTxt es ++ cE :: tail)
      have hp : parseByteStr d0 (ds ++ cColon :: (e.key ++ rest')) = some (e.key, rest') :=
        parseByteStr_txt d0 ds e.key rest' hall hdec hlen
      have hs : skipValue rest' = some (entriesTxt es ++ cE :: tail) := txt_skip e.valTxt e.val hv _
      have htxt : entriesTxt (e :: es) ++ cE :: tail = d0 :: (ds ++ cColon :: (e.key ++ rest')) := by
        simp only [entriesTxt, List.map_cons, List.flatten_cons, List.append_assoc, hkt, List.cons_append, rest']
      rw [htxt]
      simp only [scanDict, hne, if_false, hp, hs]
      have hspan : rest'.take (rest'.length - (entriesTxt es ++ cE :: tail).length) = e.valTxt := by
        simp only [rest', List.length_append, Nat.add_sub_cancel]
        exact List.take_left' rfl
      rw [hspan]
      simp only [lastInfo]
      exact ih (fun x hx => h x (List.mem_cons_of_mem _ hx)) _ f (by simp at hf; omega)

/-- **`raw_info` on every well-formed document.** Behind any `k` complete values, in a dictionary written as any
    sequence of entries, followed by anything: the bytes returned are the value text of the last entry whose key
    is `info` — nothing nested, nothing from the other top-level values. -/
theorem rawInfo_spec (pre : List (Bytes × BValue)) (hpre : ∀ t ∈ pre, Txt t.1 t.2) (es : List Entry)
    (hes : ∀ e ∈ es, StrTxt e.keyTxt e.key ∧ Txt e.valTxt e.val) (tail : Bytes) :
    rawInfo (itemsTxt pre ++ (cD :: entriesTxt es ++ cE :: tail)) pre.length = lastInfo none es := by
  unfold rawInfo
  rw [skipN_items pre hpre]
  simp only [List.cons_append, if_true]
  rw [scanDict_entries es hes tail none _ (by
    have := entriesTxt_length es (fun e he => (hes e he).1)
    simp only [List.length_append, List.length_cons]; omega)]
  rfl

end Rdest.Syntax
