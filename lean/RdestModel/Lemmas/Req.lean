/-
  Which steps of the connection-task model write `Request` frames, and how they relate to the C10 monitor's
  bookkeeping (`Cur`).  Used by Props/C10 (`C10_trace`).
-/
import RdestModel.Lemmas.Sd
set_option linter.unusedSimpArgs false
set_option linter.unusedVariables false
namespace Rdest.Swarm
open Rdest Rdest.Wire Rdest.Gen

def rqO (o : List HOut) : List (Nat × Nat × Nat) :=
  o.filterMap fun | .write (.request i b l) => some (i, b, l) | _ => none

theorem rqO_append (a b : List HOut) : rqO (a ++ b) = rqO a ++ rqO b := by simp [rqO, List.filterMap_append]

theorem rq_wr (o : List HOut) : (wrO o).filterMap (fun | .request i b l => some (i, b, l) | _ => none) = rqO o := by
  induction o with
  | nil => rfl
  | cons x xs ih =>
    cases x with
    | write m => cases m <;> simp only [wrO, rqO, List.filterMap_cons] at ih ⊢ <;> first | exact ih | rw [ih]
    | cmd c => simp only [wrO, rqO, List.filterMap_cons] at ih ⊢; exact ih
    | save h d => simp only [wrO, rqO, List.filterMap_cons] at ih ⊢; exact ih
    | load h => simp only [wrO, rqO, List.filterMap_cons] at ih ⊢; exact ih

theorem requestWrites_obs (sha1 : Bytes → Bytes) (o : List HOut) : requestWrites (o.filterMap (obsOf sha1)) = rqO o := by
  unfold requestWrites; rw [writes_obs]; exact rq_wr o

/-- No `Request` among the outputs. -/
def NoRq (o : List HOut) : Prop := rqO o = []

theorem norq_nil : NoRq [] := rfl
theorem norq_append {a b : List HOut} (ha : NoRq a) (hb : NoRq b) : NoRq (a ++ b) := by
  unfold NoRq at *; rw [rqO_append, ha, hb]; rfl

/-- The monitor's record and the task's `PieceRx` describe the same download. -/
def RelC (B : Nat) (c : Cur) (rx : Rx) : Prop :=
  rx.index = c.idx ∧ rx.requested = c.outstanding ∧ rx.left = (leftBlocks B c.plen).drop c.sent ∧
  c.sent ≤ (leftBlocks B c.plen).length

theorem drop_cons_get {α : Type} (l : List α) (n : Nat) (x : α) (rest : List α) (h : l.drop n = x :: rest) :
    l[n]? = some x ∧ l.drop (n + 1) = rest ∧ n < l.length := by
  have hlt : n < l.length := by
    cases Nat.lt_or_ge n l.length with
    | inl h' => exact h'
    | inr h' => rw [List.drop_eq_nil_of_le h'] at h; cases h
  rw [List.drop_eq_getElem_cons hlt] at h
  simp only [List.cons.injEq] at h
  exact ⟨by rw [List.getElem?_eq_getElem hlt, h.1], h.2, hlt⟩

theorem takeRequests_append (B : Nat) (c c1 : Cur) (r1 r2 : List (Nat × Nat × Nat))
    (h : takeRequests B c r1 = some c1) : takeRequests B c (r1 ++ r2) = takeRequests B c1 r2 := by
  induction r1 generalizing c with
  | nil => simp only [takeRequests, Option.some.injEq] at h; subst h; rfl
  | cons x xs ih =>
    obtain ⟨i, b, l⟩ := x
    simp only [List.cons_append, takeRequests] at h ⊢
    split at h
    · rename_i tb tl hget
      split at h
      · rename_i hc; rw [if_pos hc]; exact ih _ h
      · cases h
    · cases h

/-- `send_request` in the monitor's terms: the next tile is requested exactly when one is left. -/
theorem sendRequest_rel (B : Nat) (s : HState) (rx : Rx) (c : Cur) (hrx : s.pieceRx = some rx) (hrel : RelC B c rx) :
    ∃ c' rx', takeRequests B c (rqO (sendRequest s).2) = some c' ∧ (sendRequest s).1.pieceRx = some rx' ∧
      RelC B c' rx' ∧ c'.idx = c.idx ∧ c'.plen = c.plen ∧
      c'.sent = c.sent + (if c.sent < (leftBlocks B c.plen).length then 1 else 0) := by
  obtain ⟨h1, h2, h3, h4⟩ := hrel
  unfold sendRequest
  rw [hrx]
  simp only
  cases hl : rx.left with
  | nil =>
    have hge : (leftBlocks B c.plen).length ≤ c.sent := by
      rw [h3] at hl
      exact List.drop_eq_nil_iff.mp hl
    refine ⟨c, rx, rfl, hrx, ⟨h1, h2, h3, h4⟩, rfl, rfl, ?_⟩
    rw [if_neg (by omega)]; rfl
  | cons bl rest =>
    obtain ⟨b, l⟩ := bl
    rw [h3] at hl
    obtain ⟨hget, hdrop, hlt⟩ := drop_cons_get _ _ _ _ hl
    refine ⟨{ c with sent := c.sent + 1, outstanding := c.outstanding ++ [(b, l)] },
      { rx with left := rest, requested := rx.requested ++ [(b, l)] }, ?_, rfl, ⟨h1, by simp [h2], by simpa using hdrop.symm, (show c.sent + 1 ≤ (leftBlocks B c.plen).length from hlt)⟩, rfl, rfl, ?_⟩
    · simp only [rqO, List.filterMap_cons, List.filterMap_nil, takeRequests, hget, h1]
      simp
    · rw [if_pos hlt]

/-- `new_piece_request` in the monitor's terms: the first two tiles of the new piece. -/
theorem newPieceRequest_rel (s : HState) (i : Bool) (rd : ReqData) :
    ∃ c rx', takeRequests PIECE_BLOCK_SIZE { idx := rd.index, plen := rd.length, sent := 0, outstanding := [] }
        (rqO (newPieceRequest s i rd).2) = some c ∧
      (newPieceRequest s i rd).1.pieceRx = some rx' ∧ RelC PIECE_BLOCK_SIZE c rx' ∧
      c.sent = min 2 (leftBlocks PIECE_BLOCK_SIZE rd.length).length := by
  unfold newPieceRequest
  simp only
  let c0 : Cur := { idx := rd.index, plen := rd.length, sent := 0, outstanding := [] }
  have hrel0 : RelC PIECE_BLOCK_SIZE c0 (newRx rd) := ⟨rfl, rfl, by simp [newRx, leftImpl, c0], by simp [c0]⟩
  obtain ⟨c1, rx1, ht1, hp1, hr1, hi1, hl1, hs1⟩ :=
    sendRequest_rel PIECE_BLOCK_SIZE { s with pieceRx := some (newRx rd) } (newRx rd) c0 rfl hrel0
  obtain ⟨c2, rx2, ht2, hp2, hr2, hi2, hl2, hs2⟩ :=
    sendRequest_rel PIECE_BLOCK_SIZE (sendRequest { s with pieceRx := some (newRx rd) }).1 rx1 c1 hp1 hr1
  refine ⟨c2, rx2, ?_, hp2, hr2, ?_⟩
  · have hi0 : rqO (if i = true then [HOut.write Msg.interested] else []) = [] := by cases i <;> rfl
    rw [rqO_append, rqO_append, hi0, List.nil_append, takeRequests_append _ _ _ _ _ ht1]
    exact ht2
  · rw [hs2, hs1, hl1]
    show 0 + _ + _ = _
    by_cases h0 : 0 < (leftBlocks PIECE_BLOCK_SIZE rd.length).length
    · rw [if_pos h0]
      by_cases h1 : 0 + 1 < (leftBlocks PIECE_BLOCK_SIZE rd.length).length
      · rw [if_pos h1]; omega
      · rw [if_neg h1]; omega
    · rw [if_neg h0, if_neg (by omega)]; omega

theorem consultRequest_rq (disk : Bytes → Option Bytes) (s : HState) (idx : Nat) (rep : Rep)
    (s1 : HState) (o1 : List HOut) (b1 : Bool) (h : consultRequest disk s idx rep = some (s1, o1, b1)) :
    s1.pieceRx = s.pieceRx ∧ NoRq o1 := by
  unfold consultRequest at h
  split at h
  · split at h
    · split at h
      · cases h; exact ⟨rfl, rfl⟩
      · cases h; exact ⟨rfl, rfl⟩
    · cases h; exact ⟨rfl, rfl⟩
    · cases h
  · cases h; exact ⟨rfl, rfl⟩

theorem serveRequest_rq (s : HState) (idx b l : Nat) : NoRq (serveRequest s idx b l).1 := by
  unfold serveRequest
  split
  · rfl
  · split
    · rfl
    · split
      · rfl
      · split <;> rfl

/-- Every per-message handler other than handshake, unchoke, have and piece: no request written, `piece_rx`
    unchanged. -/
theorem dispatch_rq (sha1 : Bytes → Bytes) (disk : Bytes → Option Bytes) (s : HState) (m : Msg) (rep : Rep)
    (hnh : isHandshake m = false) (hnu : m ≠ .unchoke) (hnv : ∀ i, m ≠ .haveP i) (hnp : ∀ i b blk, m ≠ .piece i b blk)
    (s' : HState) (o : List HOut) (c : Cont) (h : dispatch sha1 disk s m rep = some (s', o, c)) :
    s'.pieceRx = s.pieceRx ∧ NoRq o := by
  cases m with
  | handshake ih pid => simp [isHandshake] at hnh
  | unchoke => exact absurd rfl hnu
  | haveP i => exact absurd rfl (hnv i)
  | piece i b blk => exact absurd rfl (hnp i b blk)
  | keepAlive => simp only [dispatch] at h; cases h; exact ⟨rfl, rfl⟩
  | choke => simp only [dispatch] at h; cases h; exact ⟨rfl, rfl⟩
  | interested => simp only [dispatch] at h; cases h; exact ⟨rfl, rfl⟩
  | cancel i b l => simp only [dispatch] at h; cases h; exact ⟨rfl, rfl⟩
  | notInterested =>
    simp only [dispatch, onNotInterested] at h
    split at h
    · cases h; exact ⟨rfl, rfl⟩
    · cases h; exact ⟨rfl, rfl⟩
    · cases h
  | bitfield bs =>
    simp only [dispatch, onBitfield] at h
    split at h
    · cases h; exact ⟨rfl, rfl⟩
    · split at h
      · rename_i u i
        cases h
        refine ⟨rfl, ?_⟩
        cases u <;> cases i <;> rfl
      · cases h
  | request idx b l =>
    simp only [dispatch, onRequest] at h
    split at h
    · cases h
    · rename_i s1 o1 hcr
      cases h
      exact consultRequest_rq disk s idx rep _ _ _ hcr
    · rename_i s1 o1 hcr
      cases h
      obtain ⟨hk, hq⟩ := consultRequest_rq disk s idx rep _ _ _ hcr
      exact ⟨hk, norq_append hq (serveRequest_rq _ idx b l)⟩

end Rdest.Swarm
