/- Helper lemmas for the bencode codec (Props C15, C17, C05). -/
import RdestModel.Props.C16
set_option linter.unusedSimpArgs false
set_option linter.unusedVariables false
namespace Rdest.Bencode
open Rdest Rdest.Props.C16

/-! ### Fuel independence: with enough fuel the result does not depend on the fuel -/

theorem values_fuel_indep (c : Bool) (f1 f2 : Nat) (inp : Bytes) (w : Bool) (h1 : inp.length < f1) (h2 : inp.length < f2) :
    values c f1 inp w = values c f2 inp w := by
  induction f1 generalizing f2 inp w with
  | zero => omega
  | succ n ih =>
    cases f2 with
    | zero => omega
    | succ m =>
      cases inp with
      | nil => simp [values]
      | cons b t =>
        simp only [List.length_cons] at h1 h2
        simp only [values]
        split
        · split
          · rename_i s r' hp
            have := parseByteStr_length b t s r' hp
            rw [ih m r' w (by omega) (by omega)]
          · rfl
        · split
          · split
            · rename_i i r' hp
              have := parseInt_length t r' i hp
              rw [ih m r' w (by omega) (by omega)]
            · rfl
          · split
            · rw [ih m t true (by omega) (by omega)]
              split
              · rename_i items r' hl
                have := values_length c m t true items r' hl
                rw [ih m r' w (by omega) (by omega)]
              · rfl
            · split
              · rw [ih m t true (by omega) (by omega)]
                split
                · rename_i items r' hl
                  have := values_length c m t true items r' hl
                  split
                  · rw [ih m r' w (by omega) (by omega)]
                  · rfl
                · rfl
              · rfl

/-- The decoder with canonical fuel. -/
def valuesU (c : Bool) (inp : Bytes) (w : Bool) : DRes := values c (inp.length + 1) inp w

theorem values_eq_U (c : Bool) (f : Nat) (inp : Bytes) (w : Bool) (h : inp.length < f) : values c f inp w = valuesU c inp w :=
  values_fuel_indep c f _ inp w h (by omega)

theorem valuesU_nil (c w : Bool) : valuesU c [] w = if w && !c then .error .eofInContainer else .ok ([], []) := by
  simp [valuesU, values]

theorem valuesU_str (c : Bool) (b : UInt8) (t s r' : Bytes) (w : Bool) (hd : isDigit b = true)
    (hp : parseByteStr b t = some (s, r')) : valuesU c (b :: t) w = consV (.str s) (valuesU c r' w) := by
  have hl := parseByteStr_length b t s r' hp
  simp only [valuesU, values, List.length_cons, hd, if_true, hp]
  rw [values_eq_U c _ r' w (by omega)]; rfl

theorem valuesU_int (c : Bool) (t r' : Bytes) (i : Int) (w : Bool)
    (hp : parseInt t = some (i, r')) : valuesU c (cI :: t) w = consV (.int i) (valuesU c r' w) := by
  have hl := parseInt_length t r' i hp
  have hd : isDigit cI = false := by decide
  simp only [valuesU, values, List.length_cons, hd, Bool.false_eq_true, if_false, if_true, hp]
  rw [values_eq_U c _ r' w (by omega)]; rfl

theorem valuesU_list (c : Bool) (t r' : Bytes) (items : List BValue) (w : Bool)
    (hl : valuesU c t true = .ok (items, r')) : valuesU c (cL :: t) w = consV (.list items) (valuesU c r' w) := by
  have hlen := values_length c _ t true items r' hl
  have hd : isDigit cL = false := by decide
  have hi : (cL = cI) = False := by decide
  simp only [valuesU, values, List.length_cons, hd, Bool.false_eq_true, if_false, hi, if_true]
  have : values c (t.length + 1) t true = .ok (items, r') := hl
  rw [this]
  simp only []
  rw [values_eq_U c _ r' w (by omega)]; rfl

theorem valuesU_dict (c : Bool) (t r' : Bytes) (items : List BValue) (kvs : List (Bytes × BValue)) (w : Bool)
    (hl : valuesU c t true = .ok (items, r')) (hp : pairUp items = some kvs) :
    valuesU c (cD :: t) w = consV (.dict (mkDict kvs)) (valuesU c r' w) := by
  have hlen := values_length c _ t true items r' hl
  have hd : isDigit cD = false := by decide
  have hi : (cD = cI) = False := by decide
  have hl' : (cD = cL) = False := by decide
  simp only [valuesU, values, List.length_cons, hd, Bool.false_eq_true, if_false, hi, hl', if_true]
  have : values c (t.length + 1) t true = .ok (items, r') := hl
  rw [this]
  simp only [hp]
  rw [values_eq_U c _ r' w (by omega)]; rfl

theorem valuesU_end (c : Bool) (t : Bytes) : valuesU c (cE :: t) true = .ok ([], t) := by
  have hd : isDigit cE = false := by decide
  have h1 : (cE = cI) = False := by decide
  have h2 : (cE = cL) = False := by decide
  have h3 : (cE = cD) = False := by decide
  simp [valuesU, values, hd, h1, h2, h3]

end Rdest.Bencode

namespace Rdest.Bencode
open Rdest

/-! ### Decimal rendering (`to_string`) and parsing -/

def digitVal (d : UInt8) : Nat := d.toNat - 48

theorem isDigit_ofNat (k : Nat) (h : k < 10) : isDigit (UInt8.ofNat (48 + k)) = true := by
  have : k = 0 ∨ k = 1 ∨ k = 2 ∨ k = 3 ∨ k = 4 ∨ k = 5 ∨ k = 6 ∨ k = 7 ∨ k = 8 ∨ k = 9 := by omega
  rcases this with rfl | rfl | rfl | rfl | rfl | rfl | rfl | rfl | rfl | rfl <;> decide

theorem digitVal_ofNat (k : Nat) (h : k < 10) : digitVal (UInt8.ofNat (48 + k)) = k := by
  have : k = 0 ∨ k = 1 ∨ k = 2 ∨ k = 3 ∨ k = 4 ∨ k = 5 ∨ k = 6 ∨ k = 7 ∨ k = 8 ∨ k = 9 := by omega
  rcases this with rfl | rfl | rfl | rfl | rfl | rfl | rfl | rfl | rfl | rfl <;> decide

theorem decToNat_append (ds : Bytes) (d : UInt8) : decToNat (ds ++ [d]) = decToNat ds * 10 + digitVal d := by
  simp [decToNat, List.foldl_append, digitVal]

/-- Properties of the digit list of `n` (least significant first). -/
theorem natDigitsRev_spec (fuel n : Nat) (hf : n < fuel) :
    (natDigitsRev fuel n).all isDigit = true ∧ natDigitsRev fuel n ≠ [] ∧
    decToNat (natDigitsRev fuel n).reverse = n ∧
    ((natDigitsRev fuel n).length ≥ 2 → (natDigitsRev fuel n).getLast? ≠ some 48) ∧
    (n ≥ 1 → (natDigitsRev fuel n).getLast? ≠ some 48) := by
  induction fuel generalizing n with
  | zero => omega
  | succ fuel ih =>
    simp only [natDigitsRev]
    by_cases h10 : n < 10
    · simp only [h10, if_true]
      refine ⟨by simp only [List.all_cons, List.all_nil, isDigit_ofNat n h10, Bool.and_true], by simp, ?_, by simp, ?_⟩
      · simp only [List.reverse_cons, List.reverse_nil, List.nil_append]
        have := decToNat_append [] (UInt8.ofNat (48 + n))
        simp only [List.nil_append] at this
        rw [this, digitVal_ofNat n h10]; simp [decToNat]
      · intro hn
        simp only [List.getLast?_singleton, ne_eq, Option.some.injEq]
        intro e
        have := digitVal_ofNat n h10
        rw [e] at this; simp [digitVal] at this; omega
    · simp only [h10, if_false]
      have hq : n / 10 < fuel := by omega
      have hq1 : n / 10 ≥ 1 := by omega
      obtain ⟨h1, h2, h3, _, h5⟩ := ih (n / 10) hq
      have hm : n % 10 < 10 := Nat.mod_lt _ (by omega)
      refine ⟨?_, by simp, ?_, ?_, ?_⟩
      · simp only [List.all_cons, isDigit_ofNat _ hm, h1, Bool.and_self]
      · simp only [List.reverse_cons]
        rw [decToNat_append, h3, digitVal_ofNat _ hm]; omega
      · intro _
        have hlast : ∀ (a : UInt8) (l : Bytes), l ≠ [] → (a :: l).getLast? = l.getLast? := by
          intro a l hl; cases l with
          | nil => exact absurd rfl hl
          | cons x xs => exact List.getLast?_cons_cons
        rw [hlast _ _ h2]; exact h5 hq1
      · intro _
        have hlast : ∀ (a : UInt8) (l : Bytes), l ≠ [] → (a :: l).getLast? = l.getLast? := by
          intro a l hl; cases l with
          | nil => exact absurd rfl hl
          | cons x xs => exact List.getLast?_cons_cons
        rw [hlast _ _ h2]; exact h5 hq1

theorem natDec_all_digits (n : Nat) : (natDec n).all isDigit = true := by
  have := (natDigitsRev_spec (n + 1) n (by omega)).1
  simpa [natDec, List.all_reverse] using this

theorem natDec_ne_nil (n : Nat) : natDec n ≠ [] := by
  have := (natDigitsRev_spec (n + 1) n (by omega)).2.1
  simpa [natDec] using this

theorem decToNat_natDec (n : Nat) : decToNat (natDec n) = n := (natDigitsRev_spec (n + 1) n (by omega)).2.2.1

/-- No leading zero, except for the single digit `0`. -/
theorem natDec_head (n : Nat) : ((natDec n).length ≥ 2 → (natDec n).head? ≠ some 48) ∧ (n ≥ 1 → (natDec n).head? ≠ some 48) := by
  obtain ⟨_, _, _, h4, h5⟩ := natDigitsRev_spec (n + 1) n (by omega)
  simp only [natDec, List.head?_reverse, List.length_reverse]
  exact ⟨h4, h5⟩

/-! ### `take_while` up to a stop byte -/

theorem splitAt_append (stop : UInt8) (pre rest : Bytes) (h : ∀ b ∈ pre, b ≠ stop) :
    splitAt stop (pre ++ stop :: rest) = (pre, rest, true) := by
  induction pre with
  | nil => simp [splitAt]
  | cons b t ih =>
    have hb : b ≠ stop := h b (by simp)
    simp only [List.cons_append, splitAt, hb, if_false]
    rw [ih (fun x hx => h x (by simp [hx]))]

theorem digit_ne_colon (b : UInt8) (h : isDigit b = true) : b ≠ cColon := by
  intro e; subst e; revert h; decide

theorem digit_ne_e (b : UInt8) (h : isDigit b = true) : b ≠ cE := by
  intro e; subst e; revert h; decide

end Rdest.Bencode

namespace Rdest.Bencode
open Rdest

theorem all_digits_ne (ds : Bytes) (h : ds.all isDigit = true) (stop : UInt8) (hs : isDigit stop = false) :
    ∀ b ∈ ds, b ≠ stop := by
  intro b hb e
  have := List.all_eq_true.mp h b hb
  rw [e, hs] at this; cases this

/-- `parse_byte_str` reads back what `add_byte_str` wrote, whatever follows. -/
theorem parseByteStr_enc (s rest : Bytes) (hlen : s.length < 2 ^ 64) (d0 : UInt8) (ds : Bytes)
    (hd : natDec s.length = d0 :: ds) : parseByteStr d0 (ds ++ cColon :: (s ++ rest)) = some (s, rest) := by
  have hall := natDec_all_digits s.length
  rw [hd] at hall
  have hds : ds.all isDigit = true := by simp only [List.all_cons, Bool.and_eq_true] at hall; exact hall.2
  have hsp := splitAt_append cColon ds (s ++ rest) (all_digits_ne ds hds cColon (by decide))
  have hdec : decToNat (d0 :: ds) = s.length := by rw [← hd]; exact decToNat_natDec _
  unfold parseByteStr
  simp only [hsp, hall, Bool.not_true, Bool.false_eq_true, if_false, hdec]
  have h1 : ¬ (s.length ≥ 2 ^ 64) := by omega
  have h2 : ¬ ((s ++ rest).length < s.length) := by simp
  rw [if_neg h1, if_neg h2]
  simp

theorem minus_not_digit : isDigit cMinus = false := by decide

/-- `parse_int` reads back what `add_int` wrote, for every `i64`. -/
theorem parseInt_enc (i : Int) (rest : Bytes) (hlo : -(2 : Int) ^ 63 ≤ i) (hhi : i < (2 : Int) ^ 63) :
    parseInt (intDec i ++ cE :: rest) = some (i, rest) := by
  have hnd := natDec_all_digits i.natAbs
  have hne := natDec_ne_nil i.natAbs
  have hval := decToNat_natDec i.natAbs
  obtain ⟨hh1, hh2⟩ := natDec_head i.natAbs
  by_cases hneg : i < 0
  · -- negative
    have hn1 : i.natAbs ≥ 1 := by omega
    have hnb : i.natAbs ≤ 2 ^ 63 := by omega
    have hnum : intDec i = cMinus :: natDec i.natAbs := by simp [intDec, hneg]
    have hall : (cMinus :: natDec i.natAbs).all (fun b => isDigit b || decide (b = cMinus)) = true := by
      simp only [List.all_cons, decide_true, Bool.or_true, Bool.true_and]
      apply List.all_eq_true.mpr
      intro b hb; simp [List.all_eq_true.mp hnd b hb]
    have hsp := splitAt_append cE (cMinus :: natDec i.natAbs) rest (by
      intro b hb
      simp only [List.mem_cons] at hb
      rcases hb with rfl | hb
      · decide
      · exact all_digits_ne _ hnd cE (by decide) b hb)
    unfold parseInt
    rw [hnum]
    simp only [hsp, hall, Bool.not_true, Bool.false_eq_true, if_false]
    -- leading-zero checks
    cases hnat : natDec i.natAbs with
    | nil => exact absurd hnat hne
    | cons d ds =>
      have hd48 : d ≠ 48 := by
        have := hh2 hn1; rw [hnat] at this; simpa using this
      have hz : ((decide ((cMinus :: d :: ds).length ≥ 2) && decide ((cMinus :: d :: ds).head? = some 48)) ||
          decide ((cMinus :: d :: ds).take 2 = [cMinus, 48])) = false := by
        have h45 : ¬ (cMinus = (48 : UInt8)) := by decide
        simp [h45, hd48]
      rw [hz]
      simp only [Bool.false_eq_true, if_false, if_true]
      have hdd : (d :: ds).all isDigit = true := by rw [← hnat]; exact hnd
      have hv : decToNat (d :: ds) = i.natAbs := by rw [← hnat]; exact hval
      simp only [List.isEmpty_cons, hdd, Bool.not_true, Bool.or_self, Bool.false_eq_true, if_false, hv]
      have : ¬ (i.natAbs > 2 ^ 63) := by omega
      rw [if_neg this]
      congr 2; omega
  · -- non-negative
    have hnb : i.natAbs < 2 ^ 63 := by omega
    have hnum : intDec i = natDec i.natAbs := by simp [intDec, hneg]
    have hall : (natDec i.natAbs).all (fun b => isDigit b || decide (b = cMinus)) = true := by
      apply List.all_eq_true.mpr
      intro b hb; simp [List.all_eq_true.mp hnd b hb]
    have hsp := splitAt_append cE (natDec i.natAbs) rest (all_digits_ne _ hnd cE (by decide))
    unfold parseInt
    rw [hnum]
    simp only [hsp, hall, Bool.not_true, Bool.false_eq_true, if_false]
    cases hnat : natDec i.natAbs with
    | nil => exact absurd hnat hne
    | cons d ds =>
      have hdd : (d :: ds).all isDigit = true := by rw [← hnat]; exact hnd
      have hdm : d ≠ cMinus := by
        intro e
        have : isDigit d = true := by simp only [List.all_cons, Bool.and_eq_true] at hdd; exact hdd.1
        rw [e] at this; revert this; decide
      have hz : ((decide ((d :: ds).length ≥ 2) && decide ((d :: ds).head? = some 48)) ||
          decide ((d :: ds).take 2 = [cMinus, 48])) = false := by
        have h1 : (decide ((d :: ds).length ≥ 2) && decide ((d :: ds).head? = some 48)) = false := by
          by_cases hl : (d :: ds).length ≥ 2
          · have := hh1 (by rw [hnat]; exact hl); rw [hnat] at this
            simp only [List.head?_cons, ne_eq, Option.some.injEq] at this
            simp [this]
          · have : decide ((d :: ds).length ≥ 2) = false := decide_eq_false hl
            rw [this]; rfl
        have h2 : decide ((d :: ds).take 2 = [cMinus, 48]) = false := by
          cases ds <;> simp [hdm]
        rw [h1, h2]; rfl
      rw [hz]
      simp only [Bool.false_eq_true, if_false, hdm, hdd, Bool.not_true]
      have hv : decToNat (d :: ds) = i.natAbs := by rw [← hnat]; exact hval
      rw [hv]
      have : ¬ (i.natAbs ≥ 2 ^ 63) := by omega
      rw [if_neg this]
      congr 2; omega

end Rdest.Bencode
