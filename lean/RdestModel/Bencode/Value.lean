/-
  Bencode values (src/bcodec/bvalue.rs). A Rust `HashMap<Vec<u8>, BValue>` is modelled by an association list that
  is kept sorted by key and free of duplicates (`mkDict` = repeated `HashMap::insert`, last value wins), so that
  equality of models is equality of maps.
-/
import RdestModel.Bytes
namespace Rdest.Bencode
open Rdest

inductive BValue where
  | int (i : Int)
  | str (s : Bytes)
  | list (items : List BValue)
  | dict (entries : List (Bytes × BValue))
  deriving Repr, Inhabited

mutual
/-- Boolean equality (the nested inductive type has no derived `DecidableEq`); used by tests only. -/
def beqV : BValue → BValue → Bool
  | .int a, .int b => a == b
  | .str a, .str b => a == b
  | .list a, .list b => beqL a b
  | .dict a, .dict b => beqD a b
  | _, _ => false
def beqL : List BValue → List BValue → Bool
  | [], [] => true
  | a :: as, b :: bs => beqV a b && beqL as bs
  | _, _ => false
def beqD : List (Bytes × BValue) → List (Bytes × BValue) → Bool
  | [], [] => true
  | (k, a) :: as, (k', b) :: bs => k == k' && beqV a b && beqD as bs
  | _, _ => false
end

/-- Lexicographic order on byte strings (`Vec<u8>::cmp`). -/
def bytesLt : Bytes → Bytes → Bool
  | [], [] => false
  | [], _ :: _ => true
  | _ :: _, [] => false
  | a :: as, b :: bs => if a < b then true else if b < a then false else bytesLt as bs

/-- `HashMap::insert` on the sorted representation. -/
def dictInsert (k : Bytes) (v : BValue) : List (Bytes × BValue) → List (Bytes × BValue)
  | [] => [(k, v)]
  | (k', v') :: rest =>
    if bytesLt k k' then (k, v) :: (k', v') :: rest
    else if bytesLt k' k then (k', v') :: dictInsert k v rest
    else (k, v) :: rest

/-- `keys.zip(values).collect::<HashMap>()`. -/
def mkDict (kvs : List (Bytes × BValue)) : List (Bytes × BValue) :=
  kvs.foldl (fun acc kv => dictInsert kv.1 kv.2 acc) []

def dictGet (d : List (Bytes × BValue)) (k : Bytes) : Option BValue := (d.find? (·.1 = k)).map (·.2)

end Rdest.Bencode
