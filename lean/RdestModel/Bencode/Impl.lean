/-
  Model of src/bcodec/bdecoder.rs.  The `Enumerate<Iter<u8>>` is the remaining input; every function returns what
  it produced together with the input that is left.  `none` stands for every `Err(_)` (the callers only distinguish
  success from failure).  Recursion is over a fuel argument; `decodeImpl` supplies `input.length + 1`, which is
  always enough (Props/C16: `fuel_sufficient`).

  The single switch `eofCloses` separates the implementation (`true`: `values_vector` returns `Ok` when the iterator
  is exhausted, also inside a list or dictionary) from the strict grammar (`false`: a container must be closed by `e`).
-/
import RdestModel.Bencode.Value
namespace Rdest.Bencode
open Rdest

def isDigit (b : UInt8) : Bool := 48 ≤ b && b ≤ 57
def cColon : UInt8 := 58
def cE : UInt8 := 101
def cI : UInt8 := 105
def cL : UInt8 := 108
def cD : UInt8 := 100
def cMinus : UInt8 := 45

/-- Decimal value of a digit string (all bytes are digits — callers check). -/
def decToNat (ds : Bytes) : Nat := ds.foldl (fun acc d => acc * 10 + (d.toNat - 48)) 0

/-- `it.take_while(|b| b != stop)`: the prefix before the first `stop`, and the rest *after* it (the iterator
    consumes the stop byte); `found` tells whether a stop byte was there at all. -/
def splitAt (stop : UInt8) : Bytes → Bytes × Bytes × Bool
  | [] => ([], [], false)
  | b :: rest =>
    if b = stop then ([], rest, true)
    else let r := splitAt stop rest; (b :: r.1, r.2.1, r.2.2)

/-- `parse_byte_str` (first digit already consumed). Returns the string and the remaining input. -/
def parseByteStr (first : UInt8) (inp : Bytes) : Option (Bytes × Bytes) :=
  let sp := splitAt cColon inp
  let lenBytes := first :: sp.1
  if !lenBytes.all isDigit then none else
  -- `:` must have been there (otherwise the input ended inside the length prefix)
  if !sp.2.2 then none else
  let len := decToNat lenBytes
  if len ≥ 2 ^ 64 then none else                 -- `usize::from_str` overflow
  let rest := sp.2.1
  if rest.length < len then none else some (rest.take len, rest.drop len)

/-- `parse_int` (the `i` already consumed). -/
def parseInt (inp : Bytes) : Option (Int × Bytes) :=
  let sp := splitAt cE inp
  let num := sp.1
  if !num.all (fun b => isDigit b || b = cMinus) then none else
  if !sp.2.2 then none else                        -- missing terminal `e`
  -- leading zero / "-0"
  if (num.length ≥ 2 && num.head? = some 48) || (num.take 2 = [cMinus, 48]) then none else
  -- `str::parse::<i64>`
  match num with
  | [] => none
  | b :: ds =>
    if b = cMinus then
      if ds.isEmpty || !ds.all isDigit then none
      else if decToNat ds > 2 ^ 63 then none else some (- (decToNat ds : Int), sp.2.1)
    else
      if !num.all isDigit then none
      else if decToNat num ≥ 2 ^ 63 then none else some ((decToNat num : Int), sp.2.1)

/-- Split a flat list `[k0, v0, k1, v1, …]` into pairs; `none` if odd or a key is not a byte string. -/
def pairUp : List BValue → Option (List (Bytes × BValue))
  | [] => some []
  | [_] => none
  | .str k :: v :: rest => (pairUp rest).map ((k, v) :: ·)
  | _ :: _ :: _ => none

/-- Why decoding failed: the input ended inside a list or dictionary (only the strict grammar reports this),
    any other `Err(_)` of the Rust decoder, or the model's fuel ran out (never, see `fuel_sufficient`). -/
inductive DErr where
  | eofInContainer
  | other
  | fuel
  deriving Repr, DecidableEq, Inhabited

abbrev DRes := Except DErr (List BValue × Bytes)

def consV (v : BValue) : DRes → DRes
  | .ok r => .ok (v :: r.1, r.2)
  | .error e => .error e

/-- `values_vector(it, with_end)`; `parse_list`, `parse_dict` inlined. -/
def values (eofCloses : Bool) : Nat → Bytes → Bool → DRes
  | 0, _, _ => .error .fuel
  | _ + 1, [], withEnd => if withEnd && !eofCloses then .error .eofInContainer else .ok ([], [])
  | fuel + 1, b :: rest, withEnd =>
    if isDigit b then
      match parseByteStr b rest with
      | some (s, rest') => consV (.str s) (values eofCloses fuel rest' withEnd)
      | none => .error .other
    else if b = cI then
      match parseInt rest with
      | some (i, rest') => consV (.int i) (values eofCloses fuel rest' withEnd)
      | none => .error .other
    else if b = cL then
      match values eofCloses fuel rest true with
      | .ok (items, rest') => consV (.list items) (values eofCloses fuel rest' withEnd)
      | .error e => .error e
    else if b = cD then
      match values eofCloses fuel rest true with
      | .ok (items, rest') =>
        match pairUp items with
        | some kvs => consV (.dict (mkDict kvs)) (values eofCloses fuel rest' withEnd)
        | none => .error .other
      | .error e => .error e
    else if b = cE then
      if withEnd then .ok ([], rest) else .error .other
    else .error .other

def toOpt : DRes → Option (List BValue)
  | .ok r => some r.1
  | .error _ => none

/-- `BDecoder::from_array`. -/
def decodeImpl (inp : Bytes) : Option (List BValue) := toOpt (values true (inp.length + 1) inp false)

/-- The strict grammar: the same, but a list or dictionary must be terminated by `e`. -/
def decodeStrictE (inp : Bytes) : DRes := values false (inp.length + 1) inp false

def decodeStrict (inp : Bytes) : Option (List BValue) := toOpt (decodeStrictE inp)

/-- The class of the recorded finding F1: the only reason the strict grammar rejects the input is that it ends
    inside a list or dictionary. -/
def EofInsideContainer (inp : Bytes) : Bool :=
  match decodeStrictE inp with
  | .error .eofInContainer => true
  | _ => false

end Rdest.Bencode
