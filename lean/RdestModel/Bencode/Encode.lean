/- Model of src/bcodec/bencoder.rs (`BEncoder::add_*`), including `i64::to_string` / `usize::to_string`. -/
import RdestModel.Bencode.Impl
namespace Rdest.Bencode
open Rdest

/-- Digits of `n`, least significant first (fuel = n + 1 is always enough). -/
def natDigitsRev : Nat → Nat → Bytes
  | 0, _ => []
  | fuel + 1, n => if n < 10 then [UInt8.ofNat (48 + n)] else UInt8.ofNat (48 + n % 10) :: natDigitsRev fuel (n / 10)

/-- `usize::to_string` / `u64::to_string`. -/
def natDec (n : Nat) : Bytes := (natDigitsRev (n + 1) n).reverse

/-- `i64::to_string`. -/
def intDec (i : Int) : Bytes := if i < 0 then cMinus :: natDec i.natAbs else natDec i.natAbs

mutual
/-- `BEncoder` for one value (`add_int`, `add_byte_str`, `add_list`, `add_dict`). Dictionaries are emitted in
    ascending key order — the model's association lists are kept sorted, the Rust code sorts explicitly. -/
def encode : BValue → Bytes
  | .int i => cI :: intDec i ++ [cE]
  | .str s => natDec s.length ++ cColon :: s
  | .list items => cL :: encodeList items ++ [cE]
  | .dict entries => cD :: encodeDict entries ++ [cE]
def encodeList : List BValue → Bytes
  | [] => []
  | v :: vs => encode v ++ encodeList vs
def encodeDict : List (Bytes × BValue) → Bytes
  | [] => []
  | (k, v) :: rest => (natDec k.length ++ cColon :: k) ++ encode v ++ encodeDict rest
end

end Rdest.Bencode
