/-
  SHA-1 (FIPS 180-1), executable. Used only by the driver to evaluate hash checks on concrete data when it
  replays the model next to the implementation; every theorem treats the hash function as a parameter.
-/
import RdestModel.Bytes
namespace Rdest.Sha1
open Rdest

def rotl (x : UInt32) (n : UInt32) : UInt32 := (x <<< n) ||| (x >>> (32 - n))

def be32w (x : UInt32) : List UInt8 :=
  [(x >>> 24).toUInt8, (x >>> 16).toUInt8, (x >>> 8).toUInt8, x.toUInt8]

def be64 (n : Nat) : List UInt8 :=
  (List.range 8).map (fun i => UInt8.ofNat (n / 2 ^ (8 * (7 - i)) % 256))

def pad (msg : Array UInt8) : Array UInt8 :=
  let l := msg.size
  let k := (119 - l % 64) % 64     -- number of zero bytes so that l + 1 + k ≡ 56 (mod 64)
  (msg.push 0x80) ++ (Array.replicate k (0 : UInt8)) ++ (be64 (8 * l)).toArray

def wordAt (a : Array UInt8) (off : Nat) : UInt32 :=
  ((a[off]!).toUInt32 <<< 24) ||| ((a[off + 1]!).toUInt32 <<< 16) ||| ((a[off + 2]!).toUInt32 <<< 8) ||| (a[off + 3]!).toUInt32

structure St where
  h0 : UInt32
  h1 : UInt32
  h2 : UInt32
  h3 : UInt32
  h4 : UInt32

def processBlock (st : St) (a : Array UInt8) (base : Nat) : St := Id.run do
  let mut w : Array UInt32 := Array.replicate 80 0
  for t in [0:16] do
    w := w.set! t (wordAt a (base + 4 * t))
  for t in [16:80] do
    w := w.set! t (rotl (w[t-3]! ^^^ w[t-8]! ^^^ w[t-14]! ^^^ w[t-16]!) 1)
  let mut a' := st.h0
  let mut b := st.h1
  let mut c := st.h2
  let mut d := st.h3
  let mut e := st.h4
  for t in [0:80] do
    let (f, k) : UInt32 × UInt32 :=
      if t < 20 then ((b &&& c) ||| ((~~~ b) &&& d), 0x5A827999)
      else if t < 40 then (b ^^^ c ^^^ d, 0x6ED9EBA1)
      else if t < 60 then ((b &&& c) ||| (b &&& d) ||| (c &&& d), 0x8F1BBCDC)
      else (b ^^^ c ^^^ d, 0xCA62C1D6)
    let tmp := rotl a' 5 + f + e + k + w[t]!
    e := d
    d := c
    c := rotl b 30
    b := a'
    a' := tmp
  return { h0 := st.h0 + a', h1 := st.h1 + b, h2 := st.h2 + c, h3 := st.h3 + d, h4 := st.h4 + e }

def sha1 (msg : Bytes) : Bytes := Id.run do
  let a := pad msg.toArray
  let mut st : St := { h0 := 0x67452301, h1 := 0xEFCDAB89, h2 := 0x98BADCFE, h3 := 0x10325476, h4 := 0xC3D2E1F0 }
  for i in [0:a.size / 64] do
    st := processBlock st a (64 * i)
  return be32w st.h0 ++ be32w st.h1 ++ be32w st.h2 ++ be32w st.h3 ++ be32w st.h4

end Rdest.Sha1
