/-
  Model of `Session::choose_piece_index` (src/session.rs): availability count, end-game filter,
  shuffle (any permutation — taken as an argument), stable sort by count, first piece the peer has.
-/
import RdestModel.Gen.Constants
namespace Rdest.Swarm
open Rdest.Gen

/-- `session::Status`. -/
inductive Status where
  | missing
  | reserved (n : Nat)
  | have
  deriving Repr, DecidableEq, Inhabited

abbrev Pieces := List Bool

def hasPiece (p : Pieces) (i : Nat) : Bool := p.getD i false

/-- `vec[piece_index]`: how many connected peers advertise piece `i`. -/
def count (peers : List Pieces) (i : Nat) : Nat := (peers.filter (fun p => hasPiece p i)).length

/-- `still_missing`: pieces not yet owned. -/
def stillMissing (st : List Status) : Nat := (st.filter (· ≠ .have)).length

/-- `is_desired`. -/
def desired (st : List Status) (i : Nat) : Bool :=
  if stillMissing st < END_GAME_LIMIT then st.getD i .have ≠ .have else st.getD i .have = .missing

/-- `rarest` before the shuffle: `(piece_index, count)` for every desired piece, in index order. -/
def rarestList (st : List Status) (peers : List Pieces) : List (Nat × Nat) :=
  ((List.range st.length).filter (desired st)).map (fun i => (i, count peers i))

/-- Stable insertion sort by the count component (`sort_by(|(_, c1), (_, c2)| c1.cmp(c2))`). -/
def insertByCount (x : Nat × Nat) : List (Nat × Nat) → List (Nat × Nat)
  | [] => [x]
  | y :: ys => if x.2 < y.2 then x :: y :: ys else y :: insertByCount x ys

def sortByCount : List (Nat × Nat) → List (Nat × Nat)
  | [] => []
  | x :: xs => insertByCount x (sortByCount xs)

/-- The final loop: first `(index, count)` with `count > 0` that the target peer has. -/
def pickFirst (sorted : List (Nat × Nat)) (target : Pieces) : Option Nat :=
  (sorted.find? (fun x => decide (x.2 > 0) && hasPiece target x.1)).map (·.1)

/-- `choose_piece_index` for one outcome `shuffled` of `rarest.shuffle(..)`. -/
def chooseImpl (shuffled : List (Nat × Nat)) (target : Pieces) : Option Nat :=
  pickFirst (sortByCount shuffled) target

/-- The property's notion of an admissible pick. -/
def eligible (st : List Status) (peers : List Pieces) (target : Pieces) (i : Nat) : Prop :=
  i < st.length ∧ hasPiece target i = true ∧ st.getD i .have ≠ .have ∧
  (stillMissing st ≥ END_GAME_LIMIT → st.getD i .have = .missing) ∧ count peers i > 0

instance (st : List Status) (peers : List Pieces) (target : Pieces) (i : Nat) : Decidable (eligible st peers target i) := by
  unfold eligible; infer_instance

/-- Executable admissibility check used by the driver: `r` is an answer `choose_piece_index` may give. -/
def admissible (st : List Status) (peers : List Pieces) (target : Pieces) (r : Option Nat) : Bool :=
  match r with
  | some i => decide (eligible st peers target i) &&
      (List.range st.length).all (fun j => !decide (eligible st peers target j) || decide (count peers i ≤ count peers j))
  | none => (List.range st.length).all (fun j => !decide (eligible st peers target j))

end Rdest.Swarm
