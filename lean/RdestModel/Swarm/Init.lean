/-
  `Peer::handle_init` (src/peer.rs): the bitfield the manager hands to a connection task after the handshake.
-/
import RdestModel.Wire.Msg
import RdestModel.Swarm.Choose
namespace Rdest.Swarm
open Rdest Rdest.Wire

/-- `Bitfield::from_vec(statuses.map(|s| s == Have))`. -/
def initBitfield (statuses : List Status) : Bytes := fromVec (statuses.map (fun st => decide (st = .have)))

end Rdest.Swarm
