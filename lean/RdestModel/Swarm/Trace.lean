/-
  Traces of a connection task: a script of inputs (with the manager's replies and the piece files present on
  disk at that moment) and, per input, the list of observations.  `runTrace` is the model's trace; the same
  decidable predicates (`Props.Cxx.P…`) are evaluated on it in the theorems and on the implementation's observed
  trace by the driver.
-/
import RdestModel.Swarm.Handler
namespace Rdest.Swarm
open Rdest Rdest.Wire Rdest.Gen

/-- What can be observed of the task from outside. A stored file is observed by name and by the hash of its contents. -/
inductive Obs where
  | write (m : Msg)
  | cmd (c : Cmd)
  | saved (nameHash dataHash : Bytes) (len : Nat)
  deriving Repr, DecidableEq, Inhabited

/-- Script inputs. `ticks k`: the keep-alive timer fires `k` times in a row. -/
inductive TIn where
  | start (rep : Rep)
  | frame (m : Msg) (rep : Rep) (disk : Option (Bytes × Bytes))   -- disk: (hash, content) of the piece file the load will find
  | recvErr
  | eof
  | bcHave (i : Nat) (rep : Rep)
  | bcState (entry : Option Bool)
  | ticks (k : Nat)
  deriving Repr, DecidableEq, Inhabited

def obsOf (sha1 : Bytes → Bytes) : HOut → Option Obs
  | .write m => some (.write m)
  | .cmd c => some (.cmd c)
  | .save h d => some (.saved h (sha1 d) d.length)
  | .load _ => none

def diskOf (d : Option (Bytes × Bytes)) : Bytes → Option Bytes :=
  fun h => match d with | some (h', c) => if h = h' then some c else none | none => none

/-- What `k` consecutive timer ticks produce when `silent` ticks have already passed since the last real
    message: a `KeepAlive` per tick, until the limit is reached — that tick closes the connection instead.
    Returns (number of keep-alives written, new silent count, still alive). -/
def kaRun (limit : Nat) : Nat → Nat → Nat × Nat × Bool
  | silent, 0 => (0, silent, true)
  | silent, k + 1 =>
    if silent = limit then (0, silent, false)
    else
      let r := kaRun limit (silent + 1) k
      (r.1 + 1, r.2.1, r.2.2)

/-- `k` ticks of the keep-alive timer, step by step through `hstep` (`timeout_keep_alive`). -/
def tickN (sha1 : Bytes → Bytes) : Nat → HState → List HOut → Option HRes
  | 0, s, acc => some (s, acc, none)
  | k + 1, s, acc =>
    match hstep sha1 (fun _ => none) s .tick with
    | some (s', o, none) => tickN sha1 k s' (acc ++ o)
    | some (s', o, some e) => some (s', acc ++ o, some e)     -- the task has ended: later ticks do not exist for it
    | none => none

/-- The same in closed form (proved equal to `tickN` in Props/C20: `tickN_closed`). -/
def ticksClosed (s : HState) (k : Nat) : HRes :=
  if !s.alive then (s, [], none) else
  let r := kaRun KEEP_ALIVE_LIMIT s.keepAlive k
  ({ s with keepAlive := r.2.1, alive := r.2.2 }, List.replicate r.1 (.write .keepAlive), if r.2.2 then none else some false)

/-- One script input on the model. `none`: the scripted reply does not fit the command (not a behaviour). -/
def tstep (sha1 : Bytes → Bytes) (s : HState) : TIn → Option HRes
  | .start rep => hstart s rep
  | .frame m rep d => hstep sha1 (diskOf d) s (.frame m rep)
  | .recvErr => hstep sha1 (fun _ => none) s .recvErr
  | .eof => hstep sha1 (fun _ => none) s .eof
  | .bcHave i rep => hstep sha1 (fun _ => none) s (.bcHave i rep)
  | .bcState e => hstep sha1 (fun _ => none) s (.bcState e)
  | .ticks k => some (ticksClosed s k)

/-- Per input: the observations, and `some normal` if the task ended with this input. -/
abbrev Trace := List (TIn × List Obs × Option Bool)

/-- The model's trace of a script (stops at the first input whose reply does not fit). -/
def runTrace (sha1 : Bytes → Bytes) : HState → List TIn → Trace
  | _, [] => []
  | s, i :: is =>
    match tstep sha1 s i with
    | some (s', o, e) => (i, o.filterMap (obsOf sha1), e) :: runTrace sha1 s' is
    | none => []

/-- States along the script (for invariants). -/
def runStates (sha1 : Bytes → Bytes) : HState → List TIn → List HState
  | s, [] => [s]
  | s, i :: is =>
    match tstep sha1 s i with
    | some (s', _, _) => s :: runStates sha1 s' is
    | none => [s]

def writes (os : List Obs) : List Msg := os.filterMap fun | .write m => some m | _ => none
def cmds (os : List Obs) : List Cmd := os.filterMap fun | .cmd c => some c | _ => none

end Rdest.Swarm
