/-
  Model of the choking policy of src/session.rs / src/peer.rs:
  `unchoked_num`, `Peer::handle_bitfield` (unchoke decision), `change_conn_state` (rotation).
  The manager's `HashMap<String, Peer>` is an association list keyed by a numeric address; its order carries
  no meaning (every operation except the rotation goes through `lookup`, and the rotation re-orders it by the
  sorted rate list it is given).
-/
import RdestModel.Gen.Constants
namespace Rdest.Swarm
open Rdest.Gen

structure CPeer where
  addr : Nat
  amChoked : Bool := true
  interested : Bool := false
  optimistic : Bool := false
  deriving Repr, DecidableEq, Inhabited

abbrev CState := List CPeer

def CPeer.regularUnchoked (p : CPeer) : Bool := !p.amChoked && !p.optimistic
def CPeer.optimisticUnchoked (p : CPeer) : Bool := !p.amChoked && p.optimistic

/-- `Session::unchoked_num`: regular (non-optimistic) unchoked peers. -/
def unchokedNum (s : CState) : Nat := (s.filter CPeer.regularUnchoked).length

def optimisticNum (s : CState) : Nat := (s.filter CPeer.optimisticUnchoked).length

def updatePeer (s : CState) (a : Nat) (f : CPeer → CPeer) : CState :=
  s.map (fun p => if p.addr = a then f p else p)

/-- `Peer::handle_bitfield`'s choke part: unchoke the sender if a regular slot is free. Returns `with_am_unchoked`. -/
def bitfieldUnchokes (maxU : Nat) (s : CState) (p : CPeer) : Bool := decide (unchokedNum s < maxU) && p.amChoked

def opBitfield (maxU : Nat) (s : CState) (a : Nat) : CState :=
  updatePeer s a (fun p => if bitfieldUnchokes maxU s p then { p with amChoked := false } else p)

/-- One iteration of the `for (addr, _) in rates.iter()` loop of `change_conn_state`.
    Returns the new record, the new `count` and the `am_choked_map` entry written, if any. -/
def rotStep (maxU : Nat) (newOpt : List Nat) (p : CPeer) (count : Nat) : CPeer × Nat × Option Bool :=
  if count < maxU then
    if p.amChoked && p.interested && !newOpt.contains p.addr then ({ p with amChoked := false }, count + 1, some false)
    else if !p.amChoked && p.interested then (p, count + 1, none)
    else if !p.amChoked && !p.interested then ({ p with amChoked := true }, count, some true)
    else (p, count, none)
  else if !p.amChoked then ({ p with amChoked := true }, count, some true)
  else (p, count, none)

/-- The whole first loop over the rate-sorted peers. -/
def rotLoop (maxU : Nat) (newOpt : List Nat) : List CPeer → Nat → List CPeer × List (Nat × Bool)
  | [], _ => ([], [])
  | p :: ps, count =>
    let r := rotStep maxU newOpt p count
    let p' := if newOpt.isEmpty then r.1 else { r.1 with optimistic := false }
    let rest := rotLoop maxU newOpt ps r.2.1
    (p' :: rest.1, (match r.2.2 with | some b => [(p.addr, b)] | none => []) ++ rest.2)

/-- The second loop: `for addr in new_optimistic`. -/
def setOptimistic (newOpt : List Nat) (s : CState) : CState :=
  s.map (fun p => if newOpt.contains p.addr then { p with amChoked := false, optimistic := true } else p)

/-- `am_choked_map` as a last-wins association list (`HashMap::insert`). -/
def mapInsert (m : List (Nat × Bool)) (a : Nat) (b : Bool) : List (Nat × Bool) := (a, b) :: m.filter (·.1 ≠ a)

/-- `change_conn_state(rates, new_optimistic)`; `sorted` is the manager's peer list in the order of the sorted
    `rates` vector. Returns the new state and the broadcast `am_choked_map`. -/
def rotate (maxU : Nat) (sorted : List CPeer) (newOpt : List Nat) : CState × List (Nat × Bool) :=
  let r := rotLoop maxU newOpt sorted 0
  let m := newOpt.foldl (fun m a => mapInsert m a false) r.2
  (setOptimistic newOpt r.1, m)

/-- Re-order the manager state by the sorted rate list. -/
def reorder (s : CState) (order : List Nat) : List CPeer := order.filterMap (fun a => s.find? (·.addr = a))

inductive COp where
  | add (a : Nat)
  | bitfield (a : Nat)
  | interested (a : Nat)
  | notInterested (a : Nat)
  | rotate (sorted : List CPeer) (newOpt : List Nat)   -- `sorted`: the peers in the order of the sorted rate vector
  | kill (a : Nat)
  deriving Repr

/-- One manager operation, generic in the slot limit (`cstep` below instantiates the source constant). -/
def cstepG (maxU : Nat) (s : CState) : COp → CState
  | .add a => { addr := a } :: s.filter (·.addr ≠ a)
  | .bitfield a => opBitfield maxU s a
  | .interested a => updatePeer s a (fun p => { p with interested := true })
  | .notInterested a => updatePeer s a (fun p => { p with interested := false })
  | .rotate sorted newOpt => (rotate maxU sorted newOpt).1
  | .kill a => s.filter (·.addr ≠ a)

def cstep (s : CState) (op : COp) : CState := cstepG MAX_UNCHOKED s op

/-- What the sorted rate vector and `new_optimistic_peers` can be: every peer exactly once; at most
    `MAX_OPTIMISTIC` new optimistic peers, each currently choked by us and interested. -/
def rotateAdmissible (maxO : Nat) (s : CState) (sorted : List CPeer) (newOpt : List Nat) : Prop :=
  sorted.Perm s ∧ newOpt.Nodup ∧ newOpt.length ≤ maxO ∧
  ∀ a ∈ newOpt, ∃ p ∈ s, p.addr = a ∧ p.amChoked = true ∧ p.interested = true

def COp.admissible (maxO : Nat) (s : CState) : COp → Prop
  | .rotate sorted newOpt => rotateAdmissible maxO s sorted newOpt
  | _ => True

/-- A history all of whose rotations are admissible for the state they are applied to. -/
def AdmissibleRun (maxU maxO : Nat) : CState → List COp → Prop
  | _, [] => True
  | s, op :: ops => op.admissible maxO s ∧ AdmissibleRun maxU maxO (cstepG maxU s op) ops

/-- The frame a connection task writes for a broadcast `am_choked_map` (`handle_manager_cmd`). -/
def frameFor (m : List (Nat × Bool)) (a : Nat) : Option Bool := (m.find? (·.1 = a)).map (·.2)

/-! ### The rotation timer (`Session::timeout_change_conn_state`) -/

/-- What `SyncStats` has recorded per peer: `(download_rate, uploaded_rate)`; `none` = not reported yet. -/
abbrev Rates := Nat → Option Nat × Option Nat

/-- "If not all peers reported their state, do nothing". -/
def tickReady (s : CState) (r : Rates) : Bool := s.all fun p => (r p.addr).1.isSome && (r p.addr).2.isSome

def tickRound (rounds round : Nat) : Nat := (round + 1) % rounds

/-- The peers `new_optimistic_peers` draws from: choked by us and interested. -/
def optCandidates (s : CState) : List Nat := (s.filter fun p => p.amChoked && p.interested).map (·.addr)

/-- The rate the peers are ordered by, as the code has it: `uploaded_rate` (bytes we sent to the peer) while some piece
    is not owned, `download_rate` (bytes received from it) once all are. (BEP 3's tit-for-tat reads the other way
    round; the property speaks of "measured rate" only, so this is recorded in DESIGN.md as an observation.) -/
def tickRate (seeder : Bool) (r : Rates) (a : Nat) : Nat := (if seeder then (r a).1 else (r a).2).getD 0

/-- `timeout_change_conn_state`. `sorted` is the peer list in the order of the sorted rate vector and `pick` the
    result of `new_optimistic_peers` (the two places where the hash map's order and the random generator enter).
    Returns the new round counter and, if the rotation is carried out, the new state and the broadcast map. -/
def tick (maxU rounds : Nat) (s : CState) (round : Nat) (r : Rates) (sorted : List CPeer) (pick : List Nat) :
    Nat × Option (CState × List (Nat × Bool)) :=
  let round' := tickRound rounds round
  if tickReady s r then (round', some (rotate maxU sorted (if round' = 0 then pick else []))) else (round', none)

/-- The state after a tick. -/
def tickState (s : CState) (t : Nat × Option (CState × List (Nat × Bool))) : CState :=
  match t.2 with
  | some x => x.1
  | none => s

/-- What `sorted` and `pick` can be: all peers, in descending order of the rate that counts; at most `maxO`
    candidates, without repetition. -/
def tickAdmissible (maxO : Nat) (s : CState) (seeder : Bool) (r : Rates) (sorted : List CPeer) (pick : List Nat) : Prop :=
  sorted.Perm s ∧ sorted.Pairwise (fun x y => tickRate seeder r y.addr ≤ tickRate seeder r x.addr) ∧
  pick.Nodup ∧ pick.length ≤ maxO ∧ ∀ a ∈ pick, a ∈ optCandidates s

end Rdest.Swarm
