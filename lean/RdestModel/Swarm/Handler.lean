/-
  Model of one connection task: src/peer_handler.rs (`PeerHandler::event_loop` and everything it calls).
  A step consumes one input — a frame from the peer, a broadcast from the manager, a keep-alive tick, the end of
  the stream — together with the manager's reply to the (at most one) command the task sends while handling it,
  and produces the list of observable outputs in order: frames written, commands sent, piece files written/read,
  and the termination of the task.  The hash function is a parameter.
-/
import RdestModel.Wire.Msg
namespace Rdest.Swarm
open Rdest Rdest.Wire Rdest.Gen

/-- `ReqData`. -/
structure ReqData where
  index : Nat
  length : Nat
  hash : Bytes
  deriving Repr, DecidableEq, Inhabited

/-- Replies of the manager (`InitCmd`, `UnchokeCmd`, `NotInterestedCmd`, `HaveCmd`, `BitfieldCmd`, `RequestCmd`, `PieceCmd`). -/
inductive Rep where
  | bitfield (bytes : Bytes)                -- InitCmd::SendBitfield
  | req (rd : ReqData) (withInterested : Bool)   -- SendRequest / SendInterestedAndRequest
  | sendInterested
  | sendNotInterested
  | prepareKill
  | ignore
  | state (withAmUnchoked amInterested : Bool)  -- BitfieldCmd::SendState
  | load (index : Nat) (hash : Bytes)       -- RequestCmd::LoadAndSendPiece
  | none                                     -- the script provides no reply
  deriving Repr, DecidableEq, Inhabited

/-- Commands sent to the manager. -/
inductive Cmd where
  | init (peerId : Bytes)
  | recvChoke
  | recvUnchoke
  | recvInterested
  | recvNotInterested
  | recvHave (index : Nat)
  | recvBitfield (bytes : Bytes)
  | recvRequest (index : Nat)
  | pieceDone
  | pieceCancel
  deriving Repr, DecidableEq, Inhabited

inductive HOut where
  | write (m : Msg)
  | cmd (c : Cmd)
  | save (hash data : Bytes)     -- `<HEX(hash)>.piece` written with `data`
  | load (hash : Bytes)          -- `<HEX(hash)>.piece` read
  deriving Repr, DecidableEq, Inhabited

inductive HIn where
  | start                                     -- beginning of `event_loop`
  | frame (m : Msg) (rep : Rep)
  | eof                                       -- recv_frame = Ok(None)
  | recvErr                                   -- recv_frame = Err(_)
  | bcHave (i : Nat) (rep : Rep)              -- BroadCmd::SendHave
  | bcState (entry : Option Bool)             -- BroadCmd::SendOwnState: this address' entry of am_choked_map
  | tick                                      -- keep-alive timer
  deriving Repr, DecidableEq, Inhabited

structure Rx where
  index : Nat
  hash : Bytes
  buff : Bytes
  requested : List (Nat × Nat)
  left : List (Nat × Nat)
  deriving Repr, DecidableEq, Inhabited

structure HState where
  infoHash : Bytes
  ownId : Bytes
  piecesNum : Nat
  peerId : Option Bytes := none
  hsDone : Bool := false
  pieceTx : Option (Nat × Bytes) := none
  pieceRx : Option Rx := none
  choked : Bool := true
  interested : Bool := false
  keepAlive : Nat := 0
  msgBuff : List Nat := []
  alive : Bool := true
  deriving Repr, DecidableEq, Inhabited

/-- `PieceRx::left`, generic in the block size: `(0..len).step_by(B)` with the last block being `len % B`. -/
def leftBlocks (B : Nat) (len : Nat) : List (Nat × Nat) :=
  (List.range ((len + B - 1) / B)).map fun k =>
    (k * B, if k * B + B > len then len % B else B)

def leftImpl (len : Nat) : List (Nat × Nat) := leftBlocks PIECE_BLOCK_SIZE len

def newRx (rd : ReqData) : Rx :=
  { index := rd.index, hash := rd.hash, buff := List.replicate rd.length 0, requested := [], left := leftImpl rd.length }

/-- `send_request`. -/
def sendRequest (s : HState) : HState × List HOut :=
  match s.pieceRx with
  | some rx =>
    match rx.left with
    | (b, l) :: rest =>
      ({ s with pieceRx := some { rx with left := rest, requested := rx.requested ++ [(b, l)] } },
        [.write (.request rx.index b l)])
    | [] => (s, [])
  | none => (s, [])

/-- `new_piece_request`. -/
def newPieceRequest (s : HState) (interested : Bool) (rd : ReqData) : HState × List HOut :=
  let s0 := { s with pieceRx := some (newRx rd) }
  let o0 : List HOut := if interested then [.write .interested] else []
  let (s1, o1) := sendRequest s0
  let (s2, o2) := sendRequest s1
  (s2, o0 ++ o1 ++ o2)

/-- Result of a step: new state, observable outputs in order, and — if the task ended with this step — whether it
    ended normally (`run` then sends `KillReq` with the reason "End job normally" or with an error text). -/
abbrev HRes := HState × List HOut × Option Bool

def terminate (s : HState) (outs : List HOut) (normal : Bool) : HRes :=
  ({ s with alive := false }, outs, some normal)

/-- `init_handshake`. `none` = the script's reply does not fit (the model is stuck; the harness never does that). -/
def initHandshake (s : HState) (peerId : Bytes) (rep : Rep) : Option (List HOut) :=
  match rep with
  | .bitfield bs => some [.write (.handshake s.infoHash s.ownId), .cmd (.init peerId), .write (.bitfield bs)]
  | _ => Option.none

/-- Reaction to the reply of `PieceDone` / `PieceCancel` (`trigger_cmd_piece_finish`); the Bool is its result. -/
def pieceFinishReply (s : HState) (rep : Rep) : Option (HState × List HOut × Bool) :=
  match rep with
  | .req rd false => let r := newPieceRequest s false rd; some (r.1, r.2, true)
  | .sendNotInterested => some (s, [.write .notInterested], true)
  | .prepareKill => some (s, [], false)
  | .ignore => some (s, [], true)
  | _ => Option.none

def bytesNumH (n : Nat) : Nat := if n % 8 = 0 then n / 8 else n / 8 + 1

def writeSlice (buff : Bytes) (begin : Nat) (block : Bytes) : Bytes :=
  buff.take begin ++ block ++ buff.drop (begin + block.length)

/-- `handle_frame` for an established task. Result `none` = script does not fit. The Bool tells whether the task continues
    (`true`), ends normally (`false` with `normal = true`), or ends with an error. -/
inductive Cont where
  | go | endNormal | endError
  deriving Repr, DecidableEq, Inhabited

abbrev FRes := Option (HState × List HOut × Cont)

/-- `handle_handshake` (+ `Handshake::validate`). -/
def onHandshake (s : HState) (ih pid : Bytes) (rep : Rep) : FRes :=
  if ih ≠ s.infoHash then some (s, [], .endError)
  else if (match s.peerId with | some expected => decide (pid ≠ expected) | none => false) then some (s, [], .endError)
  else
    let peerInit := s.peerId.isNone
    let s1 := { s with peerId := some pid, hsDone := true }
    if peerInit then
      match initHandshake s1 pid rep with
      | some o => some (s1, o, .go)
      | none => none
    else some (s1, [], .go)

/-- `handle_unchoke` + `trigger_cmd_recv_unchoke`. -/
def onUnchoke (s : HState) (rep : Rep) : FRes :=
  let s1 := { s with choked := false, msgBuff := [] }
  let flush : List HOut := s.msgBuff.map (fun i => .write (.haveP i))
  let pre := flush ++ [.cmd .recvUnchoke]
  match rep with
  | .req rd wi => let r := newPieceRequest s1 wi rd; some (r.1, pre ++ r.2, .go)
  | .sendNotInterested => some ({ s1 with pieceRx := none }, pre ++ [.write .notInterested], .go)
  | .ignore => some ({ s1 with pieceRx := none }, pre, .go)
  | _ => none

def onNotInterested (s : HState) (rep : Rep) : FRes :=
  let s1 := { s with interested := false }
  match rep with
  | .prepareKill => some (s1, [.cmd .recvNotInterested], .endNormal)
  | .ignore => some (s1, [.cmd .recvNotInterested], .go)
  | _ => none

/-- `handle_have` + `trigger_cmd_recv_have`. -/
def onHave (s : HState) (i : Nat) (rep : Rep) : FRes :=
  if i ≥ s.piecesNum then some (s, [], .endError) else
  match rep with
  | .req rd true => let r := newPieceRequest s true rd; some (r.1, [.cmd (.recvHave i)] ++ r.2, .go)
  | .sendInterested => some (s, [.cmd (.recvHave i), .write .interested], .go)
  | .ignore => some (s, [.cmd (.recvHave i)], .go)
  | _ => none

/-- `handle_bitfield` + `trigger_cmd_recv_bitfield`. -/
def onBitfield (s : HState) (bs : Bytes) (rep : Rep) : FRes :=
  if bs.length ≠ bytesNumH s.piecesNum then some (s, [], .endError) else
  match rep with
  | .state u i =>
    some (s, [.cmd (.recvBitfield bs)] ++ (if u then [.write .unchoke] else []) ++
      [.write (if i then .interested else .notInterested)], .go)
  | _ => none

/-- First half of `handle_request`: consult the manager unless the requested piece is the loaded one. -/
def needsConsult (s : HState) (idx : Nat) : Bool :=
  match s.pieceTx with
  | some (ti, _) => decide (ti ≠ idx)
  | none => true

def consultRequest (disk : Bytes → Option Bytes) (s : HState) (idx : Nat) (rep : Rep) : Option (HState × List HOut × Bool) :=
  if needsConsult s idx then
    match rep with
    | .load li h =>
      match disk h with
      | some data => some ({ s with pieceTx := some (li, data) }, [.cmd (.recvRequest idx), .load h], true)
      | none => some (s, [.cmd (.recvRequest idx), .load h], false)     -- FileNotFound
    | .ignore => some ({ s with pieceTx := none }, [.cmd (.recvRequest idx)], true)
    | _ => none
  else some (s, [], true)

/-- Second half: `Request::validate` against the loaded piece, then `send_piece`. -/
def serveRequest (s : HState) (idx begin len : Nat) : List HOut × Cont :=
  match s.pieceTx with
  | none => ([], .go)
  | some (ti, buff) =>
    if idx ≥ s.piecesNum ∨ idx ≠ ti then ([], .endError)
    else if len > PIECE_BLOCK_SIZE then ([], .endError)
    else if begin + len > buff.length then ([], .endError)
    else ([.write (.piece idx begin ((buff.drop begin).take len))], .go)

def onRequest (disk : Bytes → Option Bytes) (s : HState) (idx begin len : Nat) (rep : Rep) : FRes :=
  match consultRequest disk s idx rep with
  | none => none
  | some (s1, o1, false) => some (s1, o1, .endError)
  | some (s1, o1, true) => let r := serveRequest s1 idx begin len; some (s1, o1 ++ r.1, r.2)

/-- `handle_piece`. -/
def onPiece (sha1 : Bytes → Bytes) (s : HState) (idx begin : Nat) (block : Bytes) (rep : Rep) : FRes :=
  match s.pieceRx with
  | none => some (s, [], .go)
  | some rx =>
    if rx.index ≠ idx ∨ ¬ rx.requested.contains (begin, block.length) then some (s, [], .go) else
    let rx1 := { rx with requested := rx.requested.filter (· ≠ (begin, block.length)),
                         buff := writeSlice rx.buff begin block }
    if rx1.left.isEmpty ∧ rx1.requested.isEmpty then
      if sha1 rx1.buff ≠ rx1.hash then some ({ s with pieceRx := some rx1 }, [], .endError)
      else
        let s1 := { s with pieceRx := none }
        let pre : List HOut := [.save rx1.hash rx1.buff, .cmd .pieceDone]
        match pieceFinishReply s1 rep with
        | some (s2, o2, true) => some (s2, pre ++ o2, .go)
        | some (s2, o2, false) => some (s2, pre ++ o2, .endNormal)
        | none => none
    else
      let r := sendRequest { s with pieceRx := some rx1 }
      some (r.1, r.2, .go)

def isHandshake : Msg → Bool
  | .handshake .. => true
  | _ => false

def kaAfter (m : Msg) (k : Nat) : Nat := match m with | .keepAlive => k | _ => 0

/-- The `match frame` of `handle_frame`. -/
def dispatch (sha1 : Bytes → Bytes) (disk : Bytes → Option Bytes) (s : HState) (m : Msg) (rep : Rep) : FRes :=
  match m with
  | .handshake ih pid => onHandshake s ih pid rep
  | .keepAlive => some (s, [], .go)
  | .choke => some ({ s with choked := true }, [.cmd .recvChoke], .go)
  | .unchoke => onUnchoke s rep
  | .interested => some ({ s with interested := true }, [.cmd .recvInterested], .go)
  | .notInterested => onNotInterested s rep
  | .haveP i => onHave s i rep
  | .bitfield bs => onBitfield s bs rep
  | .request idx begin len => onRequest disk s idx begin len rep
  | .piece idx begin block => onPiece sha1 s idx begin block rep
  | .cancel .. => some (s, [], .go)

/-- `handle_frame`: reset the keep-alive counter on anything but a keep-alive; refuse every frame other than the
    handshake until a handshake has validated; then dispatch. `none` = the scripted reply does not fit. -/
def handleFrame (sha1 : Bytes → Bytes) (disk : Bytes → Option Bytes) (s : HState) (m : Msg) (rep : Rep) : FRes :=
  let s0 := { s with keepAlive := kaAfter m s.keepAlive }
  if !s0.hsDone && !isHandshake m then some (s0, [], .endError) else dispatch sha1 disk s0 m rep

def hstep (sha1 : Bytes → Bytes) (disk : Bytes → Option Bytes) (s : HState) (inp : HIn) : Option HRes :=
  if !s.alive then some (s, [], none) else
  match inp with
  | .start => some (s, [], none)     -- the beginning of `event_loop` is `hstart` below (it needs the Init reply)
  | .frame m rep =>
    match handleFrame sha1 disk s m rep with
    | none => none
    | some (s1, o, .go) => some (s1, o, none)
    | some (s1, o, .endNormal) => some (terminate s1 o true)
    | some (s1, o, .endError) => some (terminate s1 o false)
  | .eof => some (terminate s [] false)
  | .recvErr => some (terminate s [] false)
  | .bcHave i rep =>
    -- cancel the piece if somebody else completed it
    let r : Option (HState × List HOut) :=
      match s.pieceRx with
      | some rx =>
        if rx.index = i then
          let cancels : List HOut := rx.requested.map (fun bl => .write (.cancel i bl.1 bl.2))
          let s1 := { s with pieceRx := none }
          match pieceFinishReply s1 rep with
          | some (s2, o2, _) => some (s2, cancels ++ [.cmd .pieceCancel] ++ o2)
          | none => none
        else some (s, [])
      | none => some (s, [])
    match r with
    | none => none
    | some (s1, o1) =>
      if s1.choked then some ({ s1 with msgBuff := s1.msgBuff ++ [i] }, o1, none)
      else some (s1, o1 ++ [.write (.haveP i)], none)
  | .bcState entry =>
    match entry with
    | some true => some ({ s with pieceTx := none }, [.write .choke], none)
    | some false => some (s, [.write .unchoke], none)
    | none => some (s, [], none)
  | .tick =>
    if s.keepAlive = KEEP_ALIVE_LIMIT then some (terminate s [] false)
    else some ({ s with keepAlive := s.keepAlive + 1 }, [.write .keepAlive], none)

/-- Beginning of `event_loop` for a connection we opened (`peer_id` known): handshake, `Init`, bitfield. -/
def hstart (s : HState) (rep : Rep) : Option HRes :=
  if !s.alive then some (s, [], none) else
  match s.peerId with
  | some pid =>
    match initHandshake s pid rep with
    | some o => some (s, o, none)
    | none => none
  | none => some (s, [], none)

/-- `Peer::handle_request`: the manager lets the task load and send a piece only to a peer we do not choke, for an
    index in range, of a piece we own. (`amChoked` = our choking of the peer.) -/
def managerAnswersLoad (amChoked : Bool) (piecesNum idx : Nat) (isHave : Bool) : Bool :=
  !amChoked && decide (idx < piecesNum) && isHave

end Rdest.Swarm
