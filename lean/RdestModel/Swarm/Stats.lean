/-
  Model of the transfer statistics of a connection task (`Stats`, `timeout_sync_stats`, src/peer_handler.rs): bytes
  downloaded / uploaded are counted in the current interval (`STATS_INTERVAL_SEC`), the last `MAX_STATS_QUEUE_SIZE`
  intervals are kept, and at every timer tick — once the queue is full — the mean over the queue is reported to the
  manager (`SyncStats`), which uses it as the "measured rate" of the choke rotation (C14).

  Rates are `u32` in the code (`*d as u32`, `sum::<u32>()`); the model is exact while the queue's sum stays below
  `2^32` (more than 4 GiB per peer within the queue's `MAX_STATS_QUEUE_SIZE * STATS_INTERVAL_SEC` seconds is outside:
  the sum then overflows — a panic of the connection task in a build with overflow checks, a wrapped rate without).
-/
import RdestModel.Gen.Constants
namespace Rdest.Swarm
open Rdest.Gen

structure Stats where
  down : List Nat := [0]
  up : List Nat := [0]
  unexpected : Nat := 0
  deriving Repr, DecidableEq

def bump : List Nat → Nat → List Nat
  | d :: rest, n => (d + n) :: rest
  | [], _ => []

def Stats.downloaded (s : Stats) (n : Nat) : Stats := { s with down := bump s.down n }
def Stats.uploaded (s : Stats) (n : Nat) : Stats := { s with up := bump s.up n }
def Stats.unexpectedBlock (s : Stats) : Stats := { s with unexpected := s.unexpected + 1 }

/-- `Stats::shift`, generic in the queue size. -/
def trimQ (q : Nat) (l : List Nat) : List Nat := if l.length = q then l.dropLast else l

def Stats.shiftG (q : Nat) (s : Stats) : Stats :=
  { down := 0 :: trimQ q s.down, up := 0 :: trimQ q s.up, unexpected := 0 }

/-- `downloaded_rate` / `uploaded_rate`: `none` until the queue is full, then the mean. -/
def rateG (q : Nat) (l : List Nat) : Option Nat := if l.length ≠ q then none else some (l.sum / l.length)

/-- What `timeout_sync_stats` reports (if anything) and the state after it. -/
def Stats.tickG (q : Nat) (s : Stats) : Option (Option Nat × Option Nat × Nat) × Stats :=
  (if s.down.length = q then some (rateG q s.down, rateG q s.up, s.unexpected) else none, s.shiftG q)

def Stats.tick (s : Stats) := s.tickG MAX_STATS_QUEUE_SIZE

inductive StatOp where
  | down (n : Nat) | up (n : Nat) | unexpected | tick
  deriving Repr, DecidableEq

/-- Run a script; the reports of the ticks in order (`none` = that tick sent nothing). -/
def runStats (q : Nat) : Stats → List StatOp → List (Option (Option Nat × Option Nat × Nat))
  | _, [] => []
  | s, .down n :: ops => runStats q (s.downloaded n) ops
  | s, .up n :: ops => runStats q (s.uploaded n) ops
  | s, .unexpected :: ops => runStats q s.unexpectedBlock ops
  | s, .tick :: ops => (s.tickG q).1 :: runStats q (s.tickG q).2 ops

end Rdest.Swarm
