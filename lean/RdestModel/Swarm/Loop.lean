/-
  Connection tasks and the manager **together** (closed loop): the replies a task gets are no longer scripted, they are
  the ones the manager model (`mstep`, Swarm/Manager.lean) computes for the command the task (`hstep`,
  Swarm/Handler.lean) sent while handling its input — the way the two really run: the task blocks on the reply channel,
  so "command handled, reply consumed" is one atomic step for that connection, while every other connection's steps are
  interleaved arbitrarily in between.

  This file defines the joint step of one connection; `Lemmas/Loop.lean` proves that the manager's ghost field `rx` and
  its `choked` flag for that peer *are* the task's `piece_rx` index and `choked` flag in every reachable joint state, for
  any number of other connections stepping in between — which is what `Enabled` (Manager.lean) and the joint theorem
  `T4_owned_pieces_have_been_stored` (Props/C01) take for granted.
-/
import RdestModel.Swarm.Manager
import RdestModel.Swarm.Handler
import RdestModel.Swarm.Trace
namespace Rdest.Swarm.Loop
open Rdest Rdest.Wire Rdest.Swarm

/-- What the torrent says about piece `i`: listed hash and length (`req_data`, src/peer.rs). -/
structure Torrent where
  hashes : List Bytes
  plen : Nat → Nat

/-- The manager's reply as the task receives it (`ReqData` filled in from the metainfo). -/
def repOf (T : Torrent) : Reply → Rep
  | .request i wi => .req { index := i, length := T.plen i, hash := T.hashes.getD i [] } wi
  | .sendInterested => .sendInterested
  | .sendNotInterested => .sendNotInterested
  | .prepareKill => .prepareKill
  | .ignore => .ignore
  | .none => .none

def cmdsOf (o : List HOut) : List Cmd := o.filterMap fun | .cmd c => some c | _ => none

/-- The manager handles the command the task of peer `a` sent while it processed one input, and `rep` is what the task
    got back. Commands that do not touch the piece bookkeeping (`Init`, `RecvRequest`) leave the manager state as it
    is; the chooser's answer (`chosen`) and the decoded bitfield are existentially quantified (every outcome). -/
def Handled (T : Torrent) (a : Nat) (m : MState) (cmds : List Cmd) (rep : Rep) (m' : MState) : Prop :=
  match cmds with
  | [] => m' = m
  | [.init _] => m' = m
  | [.recvRequest _] => m' = m
  | [.recvChoke] => mstep m (.choke a) = .ok m' .none
  | [.recvInterested] => mstep m (.interested a) = .ok m' .none
  | [.recvUnchoke] => ∃ chosen r, mstep m (.unchoke a chosen) = .ok m' r ∧ rep = repOf T r
  | [.recvNotInterested] => ∃ chosen r, mstep m (.notInterested a chosen) = .ok m' r ∧ rep = repOf T r
  | [.recvHave i] => ∃ chosen r, mstep m (.have a i chosen) = .ok m' r ∧ rep = repOf T r
  | [.recvBitfield _] => ∃ bits chosen u, mstep m (.bitfield a bits chosen) = .ok m' .none ∧ rep = .state u chosen.isSome
  | [.pieceDone] => ∃ chosen r, mstep m (.pieceDone a chosen) = .ok m' r ∧ rep = repOf T r
  | [.pieceCancel] => ∃ chosen r, mstep m (.pieceCancel a chosen) = .ok m' r ∧ rep = repOf T r
  | _ => False

/-- `KillReq` after the task has ended: `kill_peer`. -/
def afterEnd (a : Nat) (e : Option Bool) (m : MState) : MState :=
  match e with
  | none => m
  | some _ => match mstep m (.kill a) with
    | .ok m' _ => m'
    | .panic _ => m

/-- The reply part of an input. -/
def repIn : HIn → Rep
  | .frame _ rep => rep
  | .bcHave _ rep => rep
  | _ => .none

/-- One joint step of connection `a` with the task's outputs `outs`: the task handles `inp` (whose reply part is the
    manager's), the manager handles the task's command, and a task that ended is forgotten. -/
def LStepO (T : Torrent) (sha1 : Bytes → Bytes) (disk : Bytes → Option Bytes) (a : Nat)
    (m : MState) (t : HState) (inp : HIn) (m' : MState) (t' : HState) (outs : List HOut) : Prop :=
  ∃ e m1, hstep sha1 disk t inp = some (t', outs, e) ∧ Handled T a m (cmdsOf outs) (repIn inp) m1 ∧ m' = afterEnd a e m1

def LStep (T : Torrent) (sha1 : Bytes → Bytes) (disk : Bytes → Option Bytes) (a : Nat)
    (m : MState) (t : HState) (inp : HIn) (m' : MState) (t' : HState) : Prop :=
  ∃ outs, LStepO T sha1 disk a m t inp m' t' outs

/-- The link between the two models for connection `a`: while the task lives, the manager has a record for it whose ghost
    `rx` is the index of the task's `piece_rx` and whose `choked` flag is the task's; and the piece being fetched is the
    one recorded as assigned (`piece_index`). -/
def Linked (a : Nat) (m : MState) (t : HState) : Prop :=
  t.alive = true → ∃ p, findPeer m a = some p ∧ t.pieceRx.map (·.index) = p.rx ∧ t.choked = p.choked ∧
    ∀ y, p.rx = some y → p.pieceIndex = some y

/-- What the task was told about the piece it is fetching is what the torrent lists for that index. -/
def RxListed (T : Torrent) (t : HState) : Prop :=
  ∀ rx, t.pieceRx = some rx → rx.hash = T.hashes.getD rx.index []

/-! ### Any number of connections -/

/-- The whole client: the manager, one task per address (an address without a connection is a dead task), and the ghost
    list of the piece files written so far: (index of the piece the writing task was fetching, the hash the file is named
    by, the hash of the data written). -/
structure Sys where
  m : MState
  tasks : Nat → HState
  stored : List (Nat × Bytes × Bytes)

def updateTask (f : Nat → HState) (a : Nat) (t : HState) : Nat → HState := fun b => if b = a then t else f b

def isSave : HOut → Bool
  | .save _ _ => true
  | _ => false

/-- The piece files a step of a task wrote (`<HEX(name)>.piece` with `data`), tagged with the piece it was fetching. -/
def savedBy (sha1 : Bytes → Bytes) (t : HState) (outs : List HOut) : List (Nat × Bytes × Bytes) :=
  match t.pieceRx with
  | some rx => outs.filterMap fun | .save name data => some (rx.index, name, sha1 data) | _ => none
  | none => []

/-- A new connection task: alive, nothing being fetched, choked by the peer (`PeerHandler::new`). -/
def FreshTask (t : HState) : Prop := t.alive = true ∧ t.pieceRx = none ∧ t.choked = true

/-- One step of the whole client: a connection is added (incoming, or to a listed peer), or one connection takes a
    joint step — any connection, any input: the interleaving is arbitrary. -/
inductive SysStep (T : Torrent) (sha1 : Bytes → Bytes) : Sys → Sys → Prop where
  | connect (S : Sys) (a : Nat) (t : HState) (m' : MState) :
      findPeer S.m a = none → FreshTask t → mstep S.m (.add a S.m.statuses.length) = .ok m' .none →
      SysStep T sha1 S { S with m := m', tasks := updateTask S.tasks a t }
  | own (S : Sys) (a : Nat) (d : Option (Bytes × Bytes)) (inp : HIn) (m' : MState) (t' : HState) (outs : List HOut) :
      LStepO T sha1 (diskOf d) a S.m (S.tasks a) inp m' t' outs →
      SysStep T sha1 S { m := m', tasks := updateTask S.tasks a t', stored := savedBy sha1 (S.tasks a) outs ++ S.stored }

inductive SysReach (T : Torrent) (sha1 : Bytes → Bytes) : Sys → Prop where
  | init (n : Nat) (dead : Nat → HState) : (∀ a, (dead a).alive = false) →
      SysReach T sha1 { m := { statuses := List.replicate n .missing, peers := [] }, tasks := dead, stored := [] }
  | step (S S' : Sys) : SysReach T sha1 S → SysStep T sha1 S S' → SysReach T sha1 S'

end Rdest.Swarm.Loop
