/-
  Decidable trace predicates: the statements of the connection-task properties (C01, C06-level-3, C08–C11, C20),
  in a form that is evaluated both on the model's trace (theorems in Props/) and on the implementation's observed
  trace (driver).  Each predicate is a small monitor: a state, and a step function that accepts or rejects one
  (input, observations, end-marker) triple.  Everything is executable and Mathlib-free.
-/
import RdestModel.Swarm.Trace
namespace Rdest.Swarm
open Rdest Rdest.Wire Rdest.Gen

abbrev TEntry := TIn × List Obs × Option Bool

/-- Run a monitor over a trace. -/
def checkTrace {σ : Type} (step : σ → TEntry → Option σ) : σ → Trace → Bool
  | _, [] => true
  | st, x :: xs =>
    match step st x with
    | some st' => checkTrace step st' xs
    | none => false

/-- After the task has ended nothing may be observed any more (shared by all monitors). -/
def deadOk (x : TEntry) : Bool := x.2.1.isEmpty && x.2.2.isNone

def isKeepAlive : Msg → Bool
  | .keepAlive => true
  | _ => false

def isPieceWrite : Obs → Bool
  | .write (.piece ..) => true
  | _ => false

def isWrite : Obs → Bool
  | .write _ => true
  | _ => false

/-! ### C20: keep-alive discipline -/

/-- `kaRun` as observations: (keep-alives written, new silent count, still alive). -/
def kaSpec (limit silent k : Nat) : List Obs × Nat × Bool :=
  let r := kaRun limit silent k
  (List.replicate r.1 (.write .keepAlive), r.2.1, r.2.2)

structure M20 where
  silent : Nat
  alive : Bool

/-- C20 monitor: ticks behave exactly like `kaSpec` driven by the count of ticks since the last non-keep-alive
    frame (a closing tick ends the task with an error, any other tick does not end it), and nothing at all is
    emitted after the task has ended. -/
def step20 (limit : Nat) (st : M20) (x : TEntry) : Option M20 :=
  if !st.alive then (if deadOk x then some st else none) else
  match x with
  | (.ticks k, obs, ended) =>
    let r := kaSpec limit st.silent k
    if obs = r.1 ∧ ended = (if r.2.2 then none else some false) then some { silent := r.2.1, alive := r.2.2 } else none
  | (.frame m _ _, _, ended) => some { silent := if isKeepAlive m then st.silent else 0, alive := ended.isNone }
  | (_, _, ended) => some { st with alive := ended.isNone }

def P20 (limit silent : Nat) (tr : Trace) : Bool := checkTrace (step20 limit) { silent := silent, alive := true } tr

/-! ### C14 (connection-task side): own-state broadcasts become exactly the matching messages -/

/-- What the entry of a `SendOwnState` broadcast for this connection must put on the wire. -/
def expect14 : Option Bool → List Obs
  | some true => [.write .choke]
  | some false => [.write .unchoke]
  | none => []

/-- C14 monitor (state: the task is alive). Every own-state broadcast is answered by exactly the message that
    corresponds to this connection's entry of the map — `Choke` for "now choked", `Unchoke` for "now unchoked", nothing
    when the connection's state did not change — and it never ends the task; after the task has ended nothing is
    emitted. -/
def step14 (alive : Bool) (x : TEntry) : Option Bool :=
  if !alive then (if deadOk x then some alive else none) else
  match x with
  | (.bcState entry, obs, ended) => if obs = expect14 entry ∧ ended = none then some true else none
  | (_, _, ended) => some ended.isNone

def P14 (tr : Trace) : Bool := checkTrace step14 true tr

/-! ### C08: only peers of the same torrent (and expected identity) are served -/

structure M08 where
  validated : Bool          -- a handshake has validated on this connection
  expected : Option Bytes   -- the peer id the tracker announced (outgoing) or learned from the first valid handshake
  alive : Bool

/-- C08 monitor.
    * the task's own handshake (first write of an outgoing connection, first reaction to a valid handshake on an
      incoming one) carries the torrent's info-hash and the client's id;
    * a handshake naming another info-hash or another peer id: nothing is sent in reaction, the task ends, and
      nothing is ever sent afterwards;
    * on an incoming connection, before a handshake has validated, no received frame triggers any write;
    * piece data is written only after a handshake has validated. -/
def hsValid (infoHash : Bytes) (expected : Option Bytes) (ih pid : Bytes) : Bool :=
  decide (ih = infoHash) && (match expected with | some e => decide (e = pid) | none => true)

def noPieceUnless (validated : Bool) (obs : List Obs) : Bool := validated || !obs.any isPieceWrite

def startsWithOurHandshake (infoHash ownId : Bytes) (obs : List Obs) : Bool :=
  decide ((writes obs).head? = some (.handshake infoHash ownId))

def hsOf : Msg → Option (Bytes × Bytes)
  | .handshake ih pid => some (ih, pid)
  | _ => none

def step08c (infoHash ownId : Bytes) (st : M08) (inp : TIn) (obs : List Obs) (ended : Option Bool) : Option M08 :=
  match inp with
  | .start _ =>
    if (match st.expected with
        | some _ => startsWithOurHandshake infoHash ownId obs
        | none => obs.isEmpty) && noPieceUnless st.validated obs
    then some { st with alive := ended.isNone } else none
  | .frame m _ _ =>
    match hsOf m with
    | some (ih, pid) =>
      if hsValid infoHash st.expected ih pid then
        -- an incoming connection is answered with our handshake first; a repeated handshake is not answered
        if (if st.expected.isNone then startsWithOurHandshake infoHash ownId obs else !obs.any isWrite) &&
           !obs.any isPieceWrite
        then some { validated := true, expected := some pid, alive := ended.isNone } else none
      else
        -- closed: nothing is sent in reaction, the task ends (its KillReq makes the manager forget the peer)
        if !obs.any isWrite && ended.isSome then some { st with alive := false } else none
    | none =>
      -- no piece data before a valid handshake; on an incoming connection no reply at all
      if noPieceUnless st.validated obs && (st.validated || st.expected.isSome || !obs.any isWrite)
      then some { st with alive := ended.isNone } else none
  | _ => if noPieceUnless st.validated obs then some { st with alive := ended.isNone } else none

def step08 (infoHash ownId : Bytes) (st : M08) (x : TEntry) : Option M08 :=
  if !st.alive then (if deadOk x then some st else none) else step08c infoHash ownId st x.1 x.2.1 x.2.2

def P08 (infoHash ownId : Bytes) (expected : Option Bytes) (tr : Trace) : Bool :=
  checkTrace (step08 infoHash ownId) { validated := false, expected := expected, alive := true } tr

def isHaveWrite : Obs → Bool
  | .write (.haveP _) => true
  | _ => false

def isBcHave : TIn → Bool
  | .bcHave _ _ => true
  | _ => false

/-- C08 monitor, with one more clause: before a handshake has validated on the connection (incoming or outgoing), a
    completion broadcast from the manager puts no `Have` on the wire — the peer is told nothing about our pieces
    before it has shown to be a peer of this torrent. -/
def step08h (infoHash ownId : Bytes) (st : M08) (x : TEntry) : Option M08 :=
  if st.alive && !st.validated && isBcHave x.1 && x.2.1.any isHaveWrite then none else step08 infoHash ownId st x

def P08h (infoHash ownId : Bytes) (expected : Option Bytes) (tr : Trace) : Bool :=
  checkTrace (step08h infoHash ownId) { validated := false, expected := expected, alive := true } tr

/-! ### C09: uploads return exactly the requested stored bytes, or nothing -/

structure M09 where
  cache : Option (Nat × Bytes)   -- the piece loaded after the last consult of the manager: (index, stored bytes)
  alive : Bool

def pieceWrites (obs : List Obs) : List Msg := (writes obs).filter fun | .piece .. => true | _ => false

def consulted (obs : List Obs) (idx : Nat) : Bool := (cmds obs).contains (.recvRequest idx)

def wroteChoke (obs : List Obs) : Bool := (writes obs).contains .choke

/-- The piece that is loaded after a consult answered with `rep` while `disk` is what the piece file holds. -/
def loadedBy (rep : Rep) (disk : Option (Bytes × Bytes)) : Option (Nat × Bytes) :=
  match rep, disk with
  | .load li h, some (h', data) => if h = h' then some (li, data) else none
  | _, _ => none

/-- C09 monitor. For every block request the task either writes exactly one `Piece` carrying the same index and
    offset and exactly the requested byte range of the piece it loaded at its last consult of the manager (which
    answers `load` only for owned pieces while the peer is unchoked), or writes no piece data; the range lies inside
    the piece and is at most one block long; a consult is repeated after every `Choke` the task has sent; and no
    other input makes it write piece data. -/
def reqOf : Msg → Option (Nat × Nat × Nat)
  | .request i b l => some (i, b, l)
  | _ => none

/-- What a block request may produce: nothing, or exactly the requested range of the loaded piece. -/
def uploadOk (blockSize : Nat) (cache : Option (Nat × Bytes)) (idx begin len : Nat) (pw : List Msg) : Bool :=
  match pw with
  | [] => true
  | [.piece i b blk] =>
    (match cache with
     | some (ci, data) => decide (ci = idx ∧ i = idx ∧ b = begin ∧ len ≤ blockSize ∧ begin + len ≤ data.length ∧
         blk = (data.drop begin).take len)
     | none => false)
  | _ => false

def step09c (blockSize : Nat) (st : M09) (inp : TIn) (obs : List Obs) (ended : Option Bool) : Option M09 :=
  match inp with
  | .frame m rep disk =>
    match reqOf m with
    | some (idx, begin, len) =>
      let cache' := if consulted obs idx then loadedBy rep disk else st.cache
      if uploadOk blockSize cache' idx begin len (pieceWrites obs) then some { cache := cache', alive := ended.isNone } else none
    | none => if (pieceWrites obs).isEmpty then some { st with alive := ended.isNone } else none
  | .bcState _ =>
    if (pieceWrites obs).isEmpty then
      some { cache := if wroteChoke obs then none else st.cache, alive := ended.isNone } else none
  | _ => if (pieceWrites obs).isEmpty then some { st with alive := ended.isNone } else none

def step09 (blockSize : Nat) (st : M09) (x : TEntry) : Option M09 :=
  if !st.alive then (if deadOk x then some st else none) else step09c blockSize st x.1 x.2.1 x.2.2

def P09 (blockSize : Nat) (tr : Trace) : Bool := checkTrace (step09 blockSize) { cache := none, alive := true } tr

/-! ### C10: block requests tile each assigned piece exactly once -/

structure Cur where
  idx : Nat
  plen : Nat
  sent : Nat                       -- how many blocks of the tiling have been requested so far
  outstanding : List (Nat × Nat)   -- requested and not yet answered
  deriving DecidableEq

structure M10 where
  cur : Option Cur
  alive : Bool

def requestWrites (obs : List Obs) : List (Nat × Nat × Nat) :=
  (writes obs).filterMap fun | .request i b l => some (i, b, l) | _ => none

def savedObs (obs : List Obs) : List (Bytes × Bytes × Nat) :=
  obs.filterMap fun | .saved n d l => some (n, d, l) | _ => none

/-- Consume the request frames written in one event: each must be the next tile of the current piece. -/
def takeRequests (B : Nat) (c : Cur) : List (Nat × Nat × Nat) → Option Cur
  | [] => some c
  | (i, b, l) :: rest =>
    match (leftBlocks B c.plen)[c.sent]? with
    | some (tb, tl) =>
      if i = c.idx ∧ b = tb ∧ l = tl then
        takeRequests B { c with sent := c.sent + 1, outstanding := c.outstanding ++ [(tb, tl)] } rest
      else none
    | none => none

/-- The reply of the manager that assigns a piece, if the event consumed it (`cmd` was sent in this event). -/
def assigned (inp : TIn) (obs : List Obs) : Option (Option ReqData) :=
  match inp with
  | .frame .unchoke rep _ =>
    if (cmds obs).contains .recvUnchoke then
      some (match rep with | .req rd _ => some rd | _ => none) else none
  | .frame (.haveP _) rep _ =>
    if (cmds obs).any (fun c => match c with | .recvHave _ => true | _ => false) then
      (match rep with | .req rd _ => some (some rd) | _ => none) else none
  | .frame (.piece ..) rep _ =>
    if (cmds obs).contains .pieceDone then some (match rep with | .req rd _ => some rd | _ => none) else none
  | .bcHave _ rep =>
    if (cmds obs).contains .pieceCancel then some (match rep with | .req rd _ => some rd | _ => none) else none
  | _ => none

def totalOf (B : Nat) (c : Cur) : Nat := (leftBlocks B c.plen).length

/-- 1. an accepted block: one that answers an outstanding request of the current piece. -/
def cur1Of (st : M10) (inp : TIn) : Option Cur × Bool :=
  match inp, st.cur with
  | .frame (.piece i b blk) _ _, some c =>
    if i = c.idx ∧ c.outstanding.contains (b, blk.length) then
      (some { c with outstanding := c.outstanding.filter (· ≠ (b, blk.length)) }, true)
    else (some c, false)
  | _, c => (c, false)

/-- completion: only at an accepted block that leaves nothing outstanding and nothing unrequested -/
def completesOf (B : Nat) (cur1 : Option Cur) (accepted : Bool) : Bool :=
  match cur1 with
  | some c => accepted && c.outstanding.isEmpty && decide (c.sent = totalOf B c)
  | none => false

/-- 2. (re)assignment consumed in this event, or the next request of the current piece. -/
def finish10 (B : Nat) (cur1 : Option Cur) (accepted completes : Bool) (inp : TIn) (obs : List Obs) (ended : Option Bool) :
    Option M10 :=
  let reqs := requestWrites obs
  match assigned inp obs with
  | some (some rd) =>
    -- all requests of this event belong to the new piece: the first two tiles
    let c0 : Cur := { idx := rd.index, plen := rd.length, sent := 0, outstanding := [] }
    (match takeRequests B c0 reqs with
     | some c => if c.sent = min 2 (totalOf B c0) then some { cur := some c, alive := ended.isNone } else none
     | none => none)
  | some none => if reqs.isEmpty then some { cur := none, alive := ended.isNone } else none
  | none =>
    match cur1 with
    | some c =>
      if completes then (if reqs.isEmpty then some { cur := none, alive := ended.isNone } else none) else
      (match takeRequests B c reqs with
       | some c' =>
         -- exactly one further request after an accepted block while tiles remain, none otherwise
         if c'.sent = c.sent + (if accepted && decide (c.sent < totalOf B c) then 1 else 0)
         then some { cur := some c', alive := ended.isNone } else none
       | none => none)
    | none => if reqs.isEmpty then some { cur := none, alive := ended.isNone } else none

/-- C10 monitor. All `Request` frames written between an assignment and the completion/cancellation of the
    piece name that piece and are, in order, the tiles `(k·B, min B (len − k·B))` of its length, each exactly once;
    two are pipelined at the assignment; every accepted block (one that answers an outstanding request) is followed
    by exactly one further request while tiles remain; the piece is stored and reported exactly at the accepted
    block that leaves nothing outstanding and nothing unrequested; blocks that are not outstanding (duplicates,
    foreign indices or offsets, wrong lengths) cause nothing. -/
def step10c (B : Nat) (st : M10) (inp : TIn) (obs : List Obs) (ended : Option Bool) : Option M10 :=
  let r := cur1Of st inp
  let completes := completesOf B r.1 r.2
  let saves := savedObs obs
  if !saves.isEmpty && !completes then none else
  if completes && saves.isEmpty && ended.isNone then none else   -- (a hash mismatch ends the task instead)
  finish10 B r.1 r.2 completes inp obs ended

def step10 (B : Nat) (st : M10) (x : TEntry) : Option M10 :=
  if !st.alive then (if deadOk x then some st else none) else step10c B st x.1 x.2.1 x.2.2

def P10 (B : Nat) (tr : Trace) : Bool := checkTrace (step10 B) { cur := none, alive := true } tr

/-! ### C11: the client never advertises a piece it has not verified -/

structure M11 where
  choked : Bool             -- the peer is choking us
  buffered : List Nat       -- announcements held back, in completion order
  alive : Bool

def haveWrites (obs : List Obs) : List Nat := (writes obs).filterMap fun | .haveP i => some i | _ => none
def bitfieldWrites (obs : List Obs) : List Bytes := (writes obs).filterMap fun | .bitfield b => some b | _ => none

/-- C11 monitor. `Have i` is written only in reaction to the manager's `SendHave i` (which the manager broadcasts
    only after piece `i` was verified, stored and marked owned): at once if the peer is not choking us, otherwise it
    is held back; when the peer unchokes, all held-back announcements are written first, in the order they were
    broadcast, and nothing stays behind. The only bitfield ever written is the one the manager computed at `Init`. -/
def step11c (st : M11) (inp : TIn) (obs : List Obs) (ended : Option Bool) : Option M11 :=
  let bfOk : Bool := match inp with
    | .start (.bitfield b) => decide (bitfieldWrites obs = [] ∨ bitfieldWrites obs = [b])
    | .frame (.handshake ..) (.bitfield b) _ => decide (bitfieldWrites obs = [] ∨ bitfieldWrites obs = [b])
    | _ => decide (bitfieldWrites obs = [])
  if !bfOk then none else
  match inp with
  | .bcHave i _ =>
    if st.choked then
      if haveWrites obs = [] then some { st with buffered := st.buffered ++ [i], alive := ended.isNone } else none
    else if haveWrites obs = [i] then some { st with alive := ended.isNone } else none
  | .frame .choke _ _ =>
    if haveWrites obs = [] then some { st with choked := st.choked || (cmds obs).contains .recvChoke, alive := ended.isNone } else none
  | .frame .unchoke _ _ =>
    if (cmds obs).contains .recvUnchoke then
      -- the flush comes before anything else the task writes in this step
      if haveWrites obs = st.buffered ∧ (writes obs).take st.buffered.length = st.buffered.map .haveP
      then some { choked := false, buffered := [], alive := ended.isNone } else none
    else if haveWrites obs = [] then some { st with alive := ended.isNone } else none
  | _ => if haveWrites obs = [] then some { st with alive := ended.isNone } else none

def step11 (st : M11) (x : TEntry) : Option M11 :=
  if !st.alive then (if deadOk x then some st else none) else step11c st x.1 x.2.1 x.2.2

def P11 (tr : Trace) : Bool := checkTrace step11 { choked := true, buffered := [], alive := true } tr

/-! ### C01 (connection-task part): only hash-verified data is stored and reported -/

/-- Stores and `PieceDone` reports among the observations, in order (`true` = a store). -/
def isSD : Obs → Bool
  | .saved .. => true
  | .cmd .pieceDone => true
  | _ => false

def isSavedObs : Obs → Bool
  | .saved .. => true
  | _ => false

def sdExpr (obs : List Obs) : List Bool := (obs.filter isSD).map isSavedObs

structure M01 where
  want : Option Bytes      -- the listed hash of the piece this connection is downloading
  alive : Bool

/-- C01 monitor (task part). A piece file is written only under the name of the hash listed for the assigned piece
    and only with contents that hash to exactly that value; `PieceDone` is reported only immediately after such a
    store, and every store is reported. -/
def step01c (st : M01) (inp : TIn) (obs : List Obs) (ended : Option Bool) : Option M01 :=
  let saves := savedObs obs
  let savesOk := match saves with
    | [] => true
    | [(name, dataHash, _)] => decide (st.want = some name ∧ dataHash = name)
    | _ => false
  -- PieceDone exactly once per store, right after it
  let doneOk := sdExpr obs = (if saves.isEmpty then [] else [true, false])
  if !(savesOk && decide doneOk) then none else
  let want' := match assigned inp obs with
    | some (some rd) => some rd.hash
    | some none => none
    | none => st.want
  some { want := want', alive := ended.isNone }

def step01 (st : M01) (x : TEntry) : Option M01 :=
  if !st.alive then (if deadOk x then some st else none) else step01c st x.1 x.2.1 x.2.2

def P01 (tr : Trace) : Bool := checkTrace step01 { want := none, alive := true } tr

/-! ### C06 (level 3): a receive error ends the task at once -/

def step06 (alive : Bool) (x : TEntry) : Option Bool :=
  match x with
  | (.recvErr, _, ended) => if !alive || ended == some false then some false else none
  | (.eof, _, ended) => if !alive || ended == some false then some false else none
  | (_, _, ended) => some (alive && ended.isNone)

def P06 (tr : Trace) : Bool := checkTrace step06 true tr

end Rdest.Swarm
