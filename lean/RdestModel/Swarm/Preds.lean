/-
  Decidable trace predicates: the statements of the connection-task properties (C01, C08–C11, C20), in a form
  that is evaluated both on the model's trace (theorems in Props/) and on the implementation's observed trace
  (driver).  Everything is executable and Mathlib-free.
-/
import RdestModel.Swarm.Trace
namespace Rdest.Swarm
open Rdest Rdest.Wire Rdest.Gen

/-! ### C20: keep-alive discipline -/

/-- What `k` consecutive timer ticks must produce when `silent` ticks have already passed since the last real
    message: a `KeepAlive` per tick, until the limit is reached — that tick closes the connection instead.
    Returns (observations, new silent count, still alive). -/
def kaSpec (limit : Nat) : Nat → Nat → List Obs × Nat × Bool
  | silent, 0 => ([], silent, true)
  | silent, k + 1 =>
    if silent = limit then ([], silent, false)
    else
      let r := kaSpec limit (silent + 1) k
      (.write .keepAlive :: r.1, r.2.1, r.2.2)

def isKeepAlive : Msg → Bool
  | .keepAlive => true
  | _ => false

/-- C20 on a trace: ticks behave exactly like `kaSpec` driven by the count of ticks since the last
    non-keep-alive frame, and nothing at all is emitted after the task has ended. -/
def P20 (limit : Nat) : Nat → Bool → Trace → Bool
  | _, _, [] => true
  | silent, alive, (inp, obs, ended) :: rest =>
    if !alive then obs.isEmpty && ended.isNone && P20 limit silent false rest
    else
      match inp with
      | .ticks k =>
        let r := kaSpec limit silent k
        -- a closing tick ends the task with an error (`KeepAliveTimeout`), any other tick does not end it
        decide (obs = r.1) && decide (ended = if r.2.2 then none else some false) && P20 limit r.2.1 r.2.2 rest
      | .frame m _ _ =>
        P20 limit (if isKeepAlive m then silent else 0) ended.isNone rest
      | _ => P20 limit silent ended.isNone rest


/-! ### C06 (level 3): a receive error ends the task at once -/

/-- On a trace: at a `recvErr`/`eof` input of a live task the task ends with that very input (error end). -/
def P06 : Bool → Trace → Bool
  | _, [] => true
  | alive, (inp, _, ended) :: rest =>
    (match inp with
     | .recvErr => !alive || ended == some false
     | .eof => !alive || ended == some false
     | _ => true) && P06 (alive && ended.isNone) rest

end Rdest.Swarm
