/-
  Model of the piece bookkeeping of the session manager: `Peer::handle_*` (src/peer.rs) and the
  `Session::handle_*` wrappers / `kill_peer` (src/session.rs), together with the one piece of connection-task
  state the manager's commands depend on: `rx`, the piece the task currently has a `PieceRx` for
  (src/peer_handler.rs: set by `new_piece_request`, cleared when the piece is saved or cancelled, and when an
  `Unchoke` is answered without request data).

  One model step = one manager command handled atomically together with the reaction of the sending task to the
  reply (the task blocks on the reply channel, so this pair is atomic in the implementation as well).
  The random piece choice is an argument `chosen` of the event; `ChosenOk` says what C13 guarantees about it.
-/
import RdestModel.Swarm.Choose
namespace Rdest.Swarm

structure MPeer where
  addr : Nat
  pieces : Pieces := []
  pieceIndex : Option Nat := none
  amInterested : Bool := false
  choked : Bool := true          -- the peer is choking us
  interested : Bool := false
  rx : Option Nat := none        -- connection task: piece currently being downloaded (`piece_rx`)
  deriving Repr, DecidableEq, Inhabited

structure MState where
  statuses : List Status
  peers : List MPeer
  deriving Repr, DecidableEq, Inhabited

/-- The `Status` arithmetic shared by `handle_unchoke`, `handle_have`, `handle_piece`. -/
def incr : Status → Status
  | .reserved n => .reserved (n + 1)
  | .missing => .reserved 1
  | .have => .have

/-- ... and by `handle_choke`, `handle_piece_cancel` (and the release in `handle_unchoke`). -/
def decr : Status → Status
  | .reserved n => if n ≥ 2 then .reserved (n - 1) else .missing
  | .missing => .missing
  | .have => .have

def modifyAt (l : List Status) (i : Nat) (f : Status → Status) : List Status :=
  match l[i]? with
  | some x => l.set i (f x)
  | none => l

def findPeer (s : MState) (a : Nat) : Option MPeer := s.peers.find? (·.addr = a)

def setPeer (s : MState) (p : MPeer) : List MPeer := s.peers.map (fun q => if q.addr = p.addr then p else q)

/-- What the reply tells the connection task about requesting (`ReqData` present or not). -/
inductive Reply where
  | request (i : Nat) (withInterested : Bool)   -- SendRequest / SendInterestedAndRequest
  | sendInterested
  | sendNotInterested
  | prepareKill
  | ignore
  | none                                         -- command without reply channel
  deriving Repr, DecidableEq, Inhabited

inductive Ev where
  | add (a : Nat) (npieces : Nat)
  | choke (a : Nat)
  | unchoke (a : Nat) (chosen : Option Nat)
  | interested (a : Nat)
  | notInterested (a : Nat) (chosen : Option Nat)
  | have (a : Nat) (i : Nat) (chosen : Option Nat)
  | bitfield (a : Nat) (bits : Pieces) (chosen : Option Nat)
  | pieceDone (a : Nat) (chosen : Option Nat)
  | pieceCancel (a : Nat) (chosen : Option Nat)
  | kill (a : Nat)
  deriving Repr, DecidableEq, Inhabited

/-- Outcome of a step: new state and reply, or a manager panic. -/
inductive Out where
  | ok (s : MState) (r : Reply)
  | panic (why : String)
  deriving Repr, DecidableEq, Inhabited

/-- `Peer::handle_piece` (shared tail of piece done / piece cancel). -/
def handlePiece (st : List Status) (p : MPeer) (chosen : Option Nat) : List Status × MPeer × Reply :=
  match chosen with
  | some c =>
    if p.choked then
      -- nothing can be requested while the peer chokes us: choose again at the next Unchoke
      (st, { p with pieceIndex := none, rx := none }, .ignore)
    else
      (modifyAt st c incr, { p with pieceIndex := some c, rx := some c }, .request c false)
  | none =>
    (st, { p with pieceIndex := none, amInterested := false, rx := none },
      if p.interested then .sendNotInterested else .prepareKill)

def mstep (s : MState) : Ev → Out
  | .add a n =>
    .ok { s with peers := { addr := a, pieces := List.replicate n false } :: s.peers.filter (·.addr ≠ a) } .none
  | .choke a =>
    match findPeer s a with
    | none => .panic "PeerNotFound"
    | some p =>
      -- handle_choke
      let st := match p.pieceIndex with
        | some i => modifyAt s.statuses i decr
        | none => s.statuses
      .ok { statuses := st, peers := setPeer s { p with choked := true } } .none
  | .unchoke a chosen =>
    match findPeer s a with
    | none => .panic "PeerNotFound"
    | some p =>
      -- handle_unchoke: a repeated Unchoke gives the old reservation back first
      let st0 := match p.choked, p.pieceIndex with
        | false, some old => modifyAt s.statuses old decr
        | _, _ => s.statuses
      match chosen with
      | some c =>
        .ok { statuses := modifyAt st0 c incr,
              peers := setPeer s { p with choked := false, pieceIndex := some c, amInterested := true, rx := some c } }
          (.request c (!p.amInterested))
      | none =>
        .ok { statuses := st0,
              peers := setPeer s { p with choked := false, pieceIndex := none, amInterested := false, rx := none } }
          (if p.amInterested then .sendNotInterested else .ignore)
  | .interested a =>
    match findPeer s a with
    | none => .panic "PeerNotFound"
    | some p => .ok { s with peers := setPeer s { p with interested := true } } .none
  | .notInterested a chosen =>
    match findPeer s a with
    | none => .panic "PeerNotFound"
    | some p =>
      .ok { s with peers := setPeer s { p with interested := false } }
        (if !p.amInterested && p.pieceIndex.isNone && chosen.isNone then .prepareKill else .ignore)
  | .have a i chosen =>
    match findPeer s a with
    | none => .panic "PeerNotFound"
    | some p =>
      if i ≥ p.pieces.length then .panic "index out of bounds" else
      -- the bit is set, then the chooser is consulted (`chosen`), then `Peer::handle_have`
      let p1 := { p with pieces := p.pieces.set i true }
      match chosen with
      | some c =>
        if p.amInterested = false then
          if p.choked = false ∧ p.pieceIndex = none then
            .ok { statuses := modifyAt s.statuses c incr,
                  peers := setPeer s { p1 with pieceIndex := some c, amInterested := true, rx := some c } }
              (.request c true)
          else
            .ok { s with peers := setPeer s { p1 with amInterested := true } } .sendInterested
        else .ok { s with peers := setPeer s p1 } .ignore
      | none => .ok { s with peers := setPeer s p1 } .ignore
  | .bitfield a bits chosen =>
    match findPeer s a with
    | none => .panic "PeerNotFound"
    | some p =>
      if bits.length ≠ p.pieces.length then .panic "copy_from_slice length" else
      .ok { s with peers := setPeer s { p with pieces := bits, amInterested := chosen.isSome } } .none
  | .pieceDone a chosen =>
    match findPeer s a with
    | none => .panic "PeerNotFound"
    | some p =>
      match p.pieceIndex with
      | none => .panic "Piece downloaded but not requested"
      | some y =>
        let st1 := modifyAt s.statuses y (fun _ => .have)
        let r := handlePiece st1 { p with rx := none } chosen
        .ok { statuses := r.1, peers := setPeer s r.2.1 } r.2.2
  | .pieceCancel a chosen =>
    match findPeer s a with
    | none => .panic "PeerNotFound"
    | some p =>
      match p.pieceIndex with
      | none => .panic "Piece cancelled but not requested"
      | some y =>
        let st1 := modifyAt s.statuses y decr
        let r := handlePiece st1 { p with rx := none } chosen
        .ok { statuses := r.1, peers := setPeer s r.2.1 } r.2.2
  | .kill a =>
    match findPeer s a with
    | none => .ok s .none
    | some p =>
      let st := match p.pieceIndex with
        | some i => if s.statuses.getD i .have ≠ .have then modifyAt s.statuses i (fun _ => .missing) else s.statuses
        | none => s.statuses
      .ok { statuses := st, peers := s.peers.filter (·.addr ≠ a) } .none

/-- What the chooser guarantees (C13): the pick is a piece in range that the peer advertises and we lack. -/
def ChosenOk (s : MState) (a : Nat) (statusesAtChoice : List Status) (chosen : Option Nat) : Prop :=
  match chosen with
  | none => True
  | some c => c < statusesAtChoice.length ∧ statusesAtChoice.getD c .have ≠ .have ∧
      ∃ p, findPeer s a = some p ∧ hasPiece p.pieces c = true

/-- Which events a connection task can emit in a given state (the property's quantifier): piece completion and
    cancellation need an active `PieceRx`; cancellation is triggered by a `SendHave` for that very piece, i.e. the
    piece is owned. Everything else can arrive at any time, repeatedly and out of order. -/
def Enabled (s : MState) : Ev → Prop
  | .add a n => findPeer s a = none ∧ n = s.statuses.length
  | .pieceDone a _ => ∃ p y, findPeer s a = some p ∧ p.rx = some y
  | .pieceCancel a _ => ∃ p y, findPeer s a = some p ∧ p.rx = some y ∧ s.statuses.getD y .missing = .have
  | .have a i _ => (∃ p, findPeer s a = some p) ∧ i < s.statuses.length ∧
      ∀ p, findPeer s a = some p → p.pieces.length = s.statuses.length
  | .bitfield a bits _ => (∃ p, findPeer s a = some p) ∧ bits.length = s.statuses.length ∧
      ∀ p, findPeer s a = some p → p.pieces.length = s.statuses.length
  | .kill _ => True
  | .choke a => ∃ p, findPeer s a = some p
  | .unchoke a _ => ∃ p, findPeer s a = some p
  | .interested a => ∃ p, findPeer s a = some p
  | .notInterested a _ => ∃ p, findPeer s a = some p

/-! ### When extraction starts (`extract_files_when_complete`) -/

/-- The events after which the manager looks whether everything is owned: a stored piece and a disconnect.
    (`onKillOnly = true` is the code as it was: only a disconnect.) -/
def checksCompletion (onKillOnly : Bool) : Ev → Bool
  | .pieceDone _ _ => !onKillOnly
  | .kill _ => true
  | _ => false

/-- Manager state with the `files_extracted` flag. -/
structure XState where
  m : MState
  extracted : Bool := false
  deriving Repr, DecidableEq

def xstep (onKillOnly : Bool) (x : XState) (ev : Ev) : Option (XState × Reply) :=
  match mstep x.m ev with
  | .ok s' r =>
    some ({ m := s', extracted := x.extracted || (checksCompletion onKillOnly ev && decide (stillMissing s'.statuses = 0)) }, r)
  | .panic _ => none

end Rdest.Swarm
