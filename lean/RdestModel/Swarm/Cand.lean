/-
  Model of the manager's connection bookkeeping around the piece bookkeeping of `Swarm/Manager`:
  `Session::handle_tracker_cmd`, `spawn_peer_handler`, `try_next_candidate`, `handle_kill_req`, `spawn_tracker`
  (src/session.rs).  The piece bookkeeping itself is `xstep` (Manager.lean); this file adds

  * `cands`       = `self.candidates` (`Vec`, `pop()` takes the **last** entry),
  * `trackerHeld` = `self.tracker.job.is_some()`,
  * history (ghost) lists: every address a tracker reply ever listed, every address a connection task was started
    for, every listed address that was dropped because a connection to it already existed.

  One step = one command handled by the manager (`handle_peer_cmd` / `handle_tracker_cmd`) atomically.
  `guard` selects `spawn_tracker`: `true` = the repaired code (no second tracker task while one is held),
  `false` = the code as it was.
-/
import RdestModel.Swarm.Manager
import RdestModel.Gen.Constants
namespace Rdest.Swarm.Book
open Rdest.Swarm Rdest.Gen

structure CState where
  x : XState
  cands : List Nat := []
  trackerHeld : Bool := true
  announcers : Nat := 1
  listed : List Nat := []
  contacted : List Nat := []
  skipped : List Nat := []
  deriving Repr, DecidableEq

inductive CEv where
  | peer (ev : Ev)                  -- a command of a connection task; `.kill a` is `KillReq` (handle_kill_req)
  | trackerResp (l : List Nat)      -- `TrackerCmd::TrackerResp` listing these addresses, in this order
  | trackerFail                     -- `TrackerCmd::Fail`
  deriving Repr, DecidableEq

/-- Number of pieces of the torrent (length of every peer's piece vector). -/
def CState.np (c : CState) : Nat := c.x.m.statuses.length

def CState.complete (c : CState) : Bool := decide (stillMissing c.x.m.statuses = 0)

/-- `spawn_peer_handler`: take the last candidate; start a connection task for it unless a connection to that address
    exists already. -/
def spawnOne (c : CState) : CState :=
  match c.cands.getLast? with
  | none => c
  | some a =>
    if (findPeer c.x.m a).isSome then
      { c with cands := c.cands.dropLast, skipped := c.skipped ++ [a] }
    else
      { c with
        cands := c.cands.dropLast
        contacted := c.contacted ++ [a]
        x := { c.x with m := { c.x.m with
          peers := { addr := a, pieces := List.replicate c.np false } :: c.x.m.peers } } }

def spawnN : Nat → CState → CState
  | 0, c => c
  | n + 1, c => spawnN n (spawnOne c)

/-- `try_next_candidate` -/
def tryNext (c : CState) : CState := if c.complete then c else spawnOne c

/-- `spawn_tracker` -/
def spawnTracker (guard : Bool) (c : CState) : CState :=
  if guard && c.trackerHeld then c else { c with trackerHeld := true, announcers := c.announcers + 1 }

/-- How many connection tasks `handle_tracker_cmd` starts: `MAX_UNCHOKED + MAX_OPTIMISTIC` minus the peers we are
    interested in (not below zero). -/
def spawnNum (c : CState) : Nat :=
  (MAX_UNCHOKED + MAX_OPTIMISTIC) - (c.x.m.peers.filter (·.amInterested)).length

/-- Does the reply say "this peer has nothing (more) for us"?  (`nothing_to_get` in the handlers.) -/
def nothingToGet (ev : Ev) (r : Reply) : Bool :=
  match ev with
  | .unchoke _ _ => r = .sendNotInterested
  | .bitfield _ _ chosen => chosen.isNone
  | .pieceDone _ _ => r = .sendNotInterested
  | .pieceCancel _ _ => r = .sendNotInterested
  | _ => false

def isKill : Ev → Bool
  | .kill _ => true
  | _ => false

/-- One manager step; `none` = the manager panics (as `xstep`). -/
def bkstep (guard : Bool) (c : CState) : CEv → Option (CState × Reply)
  | .trackerFail => some (c, .none)
  | .trackerResp l =>
    let c1 := { c with cands := c.cands ++ l, listed := c.listed ++ l }
    let c2 := spawnN (spawnNum c1) c1
    -- kill_tracker: the handle is taken
    some ({ c2 with trackerHeld := false }, .none)
  | .peer ev =>
    match xstep false c.x ev with
    | none => none
    | some (x', r) =>
      let c1 := { c with x := x' }
      if isKill ev then
        -- handle_kill_req
        if c1.complete then some (c1, r)
        else if c1.cands.isEmpty then some (spawnTracker guard c1, r)
        else some (spawnOne c1, r)
      else if nothingToGet ev r then some (tryNext c1, r)
      else some (c1, r)

/-- A new session; `held` = has `Session::run` started the first tracker task (the correspondence harness drives a
    session whose event loop is not running: `false`). -/
def cinit (np : Nat) (held : Bool := true) : CState :=
  { x := { m := { statuses := List.replicate np .missing, peers := [] } }, trackerHeld := held, announcers := if held then 1 else 0 }

/-- Reachable states: any sequence of manager steps that do not panic. -/
inductive CReach (guard : Bool) (np : Nat) : CState → Prop where
  | init (held : Bool) : CReach guard np (cinit np held)
  | step (c c' : CState) (e : CEv) (r : Reply) : CReach guard np c → bkstep guard c e = some (c', r) → CReach guard np c'

end Rdest.Swarm.Book
